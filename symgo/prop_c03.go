package main

func init() {
	props["C03"] = &propDef{
		info: PropInfo{
			Bounds: []string{
				"per-axis helpers: every (input zoom, output zoom) pair with zoom-in distance <= 3 (quick) / <= 5 (thorough) and every zoom-out distance; indices symbolic over the full valid range, both signs for f",
				"list API: 1 ID with zoom-in <= 2 levels per axis and any zoom-out; 2 IDs of mixed zooms with zoom-in <= 1 level; completeness and soundness through a symbolic probe cell of the target grid",
			},
			Outside: []string{"lists longer than 2 IDs", "zoom-in by more than the stated number of levels (output size grows as 4^dh*2^dv)", "IDs whose indices are outside their zoom's range"},
		},
		insts: func(tier string) []*Instance {
			var is []*Instance
			maxIn := 3
			if tier == "thorough" {
				maxIn = 5
			}
			for a := 0; a <= 35; a++ {
				for b := 0; b <= 35; b++ {
					if b-a > maxIn {
						continue
					}
					if tier == "quick" && b < a && !(a == 35 || a == 26 || a == 25 || a == b+1 || a == b+2 || b == 0) {
						continue
					}
					in := mk("integrate", "VerifC03Vertical", cs("vz", a, "out", b))
					in.Unwind = 40
					is = append(is, in)
					if b-a <= 2 {
						in = mk("integrate", "VerifC03Horizontal", cs("hz", a, "out", b))
						in.Unwind = 40
						is = append(is, in)
					}
				}
			}
			type zc struct{ h0, v0, H, V int }
			var one []zc
			bases := []int{0, 1, 24, 25, 33}
			for _, b := range bases {
				for dh := 0; dh <= 2; dh++ {
					for dv := 0; dv <= 2; dv++ {
						if tier == "quick" && dh+dv > 2 {
							continue
						}
						one = append(one, zc{b, b, b + dh, b + dv})
					}
				}
			}
			for _, b := range []int{35, 26, 25, 3} {
				for _, d := range []int{1, 2, 3, 25} {
					if b-d < 0 {
						continue
					}
					one = append(one, zc{b, b, b - d, b - d}, zc{b, b, b - d, b}, zc{b, b, b, b - d}, zc{b, b, b - d, min(b+1, 35)})
				}
			}
			for _, c := range one {
				in := mk("integrate", "VerifC03Change", cs("n", 1, "H", c.H, "V", c.V, "h0", c.h0, "v0", c.v0))
				in.Unwind = 80
				is = append(is, in)
			}
			// two IDs, mixed zooms
			two := [][6]int{{2, 2, 3, 3, 3, 3}, {5, 5, 4, 6, 5, 5}, {10, 12, 11, 11, 10, 11}, {25, 26, 26, 25, 25, 25}, {3, 3, 3, 3, 2, 2}, {7, 9, 9, 7, 8, 8}, {1, 1, 2, 1, 2, 2}}
			if tier == "thorough" {
				two = append(two, [6]int{20, 20, 21, 21, 22, 21}, [6]int{30, 31, 31, 30, 31, 31}, [6]int{0, 0, 1, 1, 1, 1}, [6]int{34, 34, 35, 35, 35, 35})
			}
			for _, t := range two {
				in := mk("integrate", "VerifC03Change", cs("n", 2, "h0", t[0], "v0", t[1], "h1", t[2], "v1", t[3], "H", t[4], "V", t[5]))
				in.Unwind = 80
				is = append(is, in)
			}
			for _, t := range [][2]int{{3, 4}, {4, 3}, {25, 26}, {26, 24}, {0, 1}, {35, 30}, {1, 0}, {10, 10}} {
				in := mk("integrate", "VerifC03ChangeSpatial", cs("z0", t[0], "Z", t[1]))
				in.Unwind = 80
				is = append(is, in)
			}
			return is
		},
		tv: func(tier string, seed int64) []*TV {
			r := &rng{uint64(seed) + 3}
			var tvs []*TV
			for i := 0; i < 8; i++ {
				vz := r.rangeI(0, 35)
				out := r.rangeI(0, min64(35, vz+3))
				tvs = append(tvs, &TV{Harness: "VerifC03Vertical", PkgDir: "integrate", Case: cs("vz", vz, "out", out), Unwind: 40, Inputs: map[string]string{"f": i2s(r.rangeI(-(1 << vz), (1<<vz)-1))}})
				hz := r.rangeI(0, 35)
				o2 := r.rangeI(0, min64(35, hz+2))
				tvs = append(tvs, &TV{Harness: "VerifC03Horizontal", PkgDir: "integrate", Case: cs("hz", hz, "out", o2), Unwind: 40, Inputs: map[string]string{"x": i2s(r.rangeI(0, (1<<hz)-1)), "y": i2s(r.rangeI(0, (1<<hz)-1)), "px": "0", "py": "0"}})
			}
			// the repository's own test vector for ChangeExtendedSpatialIdsZoom
			tvs = append(tvs, &TV{Harness: "VerifC03Change", PkgDir: "integrate", Unwind: 80, Case: cs("n", 1, "H", 7, "V", 8, "h0", 6, "v0", 7), Inputs: map[string]string{"x0": "24", "y0": "53", "f0": "24", "px": "48", "py": "106", "pf": "48"}})
			tvs = append(tvs, &TV{Harness: "VerifC03Change", PkgDir: "integrate", Unwind: 80, Case: cs("n", 1, "H", 0, "V", 0, "h0", 1, "v0", 1), Inputs: map[string]string{"x0": "1", "y0": "1", "f0": "-1", "px": "0", "py": "0", "pf": "-1"}})
			return tvs
		},
	}
}

func min64(a, b int64) int64 {
	if a < b {
		return a
	}
	return b
}
