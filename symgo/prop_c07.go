package main

func init() {
	props["C07"] = &propDef{
		info: PropInfo{
			Bounds: []string{
				"horizontal zoom h case-split over 0..35; x, y in [0,2^h); vertical zoom 0..35, |f|,|dv| < 2^61, |dx|,|dy| <= 4*2^h all symbolic; the wrap loop is unwound 8 times with an unwinding check",
				"composition law with |a|,|b| <= 2*2^h per horizontal axis",
			},
			Outside:     []string{"horizontal shifts of more than four world-widths (the library's wrap loop is linear in dx/2^h)", "vertical indices beyond 2^61"},
			Assumptions: []string{"math.Pow(2,k) exact and math.Mod exact on integer-valued doubles below 2^53 (checked at start-up against math.Ldexp / literals)"},
		},
		insts: func(tier string) []*Instance {
			var is []*Instance
			for h := 0; h <= 35; h++ {
				in := mk("operated", "VerifC07Shift", cs("h", h))
				in.Unwind = 8
				is = append(is, in)
				if tier == "thorough" || h%5 == 0 || h == 1 || h == 34 {
					in = mk("operated", "VerifC07Compose", cs("h", h))
					in.Unwind = 8
					is = append(is, in)
				}
			}
			return is
		},
		tv: func(tier string, seed int64) []*TV {
			r := &rng{uint64(seed) + 7}
			var tvs []*TV
			for i := 0; i < 10; i++ {
				h := r.rangeI(0, 35)
				n := int64(1) << h
				tvs = append(tvs, &TV{Harness: "VerifC07Shift", PkgDir: "operated", Case: cs("h", h), Inputs: map[string]string{
					"x": i2s(r.rangeI(0, n-1)), "y": i2s(r.rangeI(0, n-1)), "f": i2s(r.rangeI(-1000, 1000)), "v": i2s(r.rangeI(0, 35)),
					"dx": i2s(r.rangeI(-4*n, 4*n)), "dy": i2s(r.rangeI(-4*n, 4*n)), "dv": i2s(r.rangeI(-50, 50))}})
			}
			return tvs
		},
	}
}
