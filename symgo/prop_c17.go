package main

func init() {
	props["C17"] = &propDef{
		info: PropInfo{
			Bounds: []string{
				"kernel calcBitIndex: output zoom case-split over 0..3 (quick) / 0..4 (thorough); altitude(s) and height range any reals with |.| <= 10^6 and max-min >= 1e-3: index in 0..2^zoom-1, monotone in the altitude, clamped below/above the range — relaxed encoding with the rounding error as a monotone function of the exact result (over-approximates IEEE binary64)",
				"kernel structure at output zooms 1, 5, 8, 16, 35 (thorough also 24): index in 0..2^zoom-1 and monotone in the altitude for ANY doubles (float arithmetic uninterpreted, comparisons exact; one-shot z3 5.1 per query)",
				"reverse direction (ConvertQuadkeysAndVerticalIDsToExtendedSpatialIDs with max > min): for (bit zoom, index, output vZoom) in {(1,0,25),(1,1,25),(2,3,24),(2,1,26)}, any height range within +-10^5 m whose cells are at most two output cells tall: the returned run is contiguous, duplicate-free, covers the altitude interval of cell i (bounds in exact reals, tolerance 1e-6 m for the rounding of the two bounds) and does not reach beyond the cells touching it; thorough: a request of two pairs with the same index and different height ranges (second range concrete), in either order, gives the union of the single conversions",
				"forward entry convertVerticallIDToBit: the returned set is exactly the run from the bottom cell to the top cell (run length <= 4), for (voxel zoom, output zoom) in {(0,1),(0,2),(20,1)}",
				"maxHeight < minHeight: error in both directions (any doubles)",
			},
			Outside: []string{"the reverse direction beyond bit-index zooms 1..2 and cells taller than two output cells", "output zooms above 4 (solver time grows steeply with the number of halvings: zoom 4 needs several minutes)", "the forward entry at voxel zooms 25/30 and output zooms above 2 (solver unknown at 120 s)", "that the cell interval produced by the halving contains the altitude to the last ulp (the borders are rounded sums; only order properties are claimed)", "the inverse entry's contiguity beyond the error case (it goes through NewPoint / GetExtendedSpatialIdsOnPoints whose vertical kernel is C01)", "height ranges beyond +-10^6 m"},
		},
		insts: func(tier string) []*Instance {
			var is []*Instance
			mz := 3
			if tier == "thorough" {
				mz = 4
			}
			for z := 0; z <= mz; z++ {
				in := mk("transform", "VerifC17BitIndex", cs("zoom", z))
				in.Relaxed = true
				in.RelaxedUF = true
				in.Timeout = 120000
				if tier == "thorough" {
					in.Timeout = 1200000
					in.MaxSeconds = 3000
				}
				in.Unwind = 40
				is = append(is, in)
			}
			for _, v := range []int{0, 20} {
				for z := 1; z <= 2; z++ {
					if v == 20 && z == 2 {
						continue // solver unknown at 120 s
					}
					in := mk("transform", "VerifC17Run", cs("zoom", z, "v", v, "maxrun", 4))
					in.Relaxed = true
					in.RelaxedUF = true
					in.Timeout = 120000
					in.Unwind = 40
					is = append(is, in)
				}
			}
			for _, z := range []int{1, 5, 8, 16, 24, 35} {
				if tier == "quick" && z == 24 {
					continue
				}
				in := mk("transform", "VerifC17Structure", cs("zoom", z))
				in.Opaque = true
				in.Solver = Z3New
				in.Stateless = true // one-shot z3 decides the 35-level ite chains in seconds; its incremental core does not
				in.Unwind = 40
				in.Timeout = 120000
				is = append(is, in)
			}
			{
				for _, c := range [][5]int{{1, 0, 25, 1, 0}, {1, 1, 25, 1, 0}, {2, 3, 24, 1, 0}, {2, 1, 26, 1, 0}, {1, 1, 25, 2, 0}, {2, 0, 24, 2, 1}} {
					if c[3] == 2 && tier != "thorough" {
						continue // the two-pair form needs 7-9 minutes
					}
					in := mk("transform", "VerifC17Reverse", cs("z", c[0], "i", c[1], "ov", c[2], "n", c[3], "ord", c[4]))
					in.Relaxed = true
					in.RelaxedUF = c[3] == 2 // the same conversion runs twice (in the list and alone): its rounding must be a function
					in.Solver = Z3New
					in.Stateless = true
					in.Timeout = 60000
					in.Unwind = 40
					in.MaxSeconds = 2400
					is = append(is, in)
				}
			}
			e := mk("transform", "VerifC17Errors", nil)
			e.Solver = CVC5
			is = append(is, e)
			return is
		},
		tv: func(tier string, seed int64) []*TV {
			return []*TV{
				{Harness: "VerifC17BitIndex", PkgDir: "transform", Unwind: 40, Case: cs("zoom", 4), Inputs: map[string]string{"max": f2s(500), "min": f2s(-500), "a1": f2s(-3.5), "a2": f2s(312.25)}},
				{Harness: "VerifC17Run", PkgDir: "transform", Unwind: 40, Case: cs("zoom", 3, "v", 25, "maxrun", 4), Inputs: map[string]string{"max": f2s(10), "min": f2s(-6), "f": "3", "p": "4"}},
				{Harness: "VerifC17Run", PkgDir: "transform", Unwind: 40, Case: cs("zoom", 2, "v", 20, "maxrun", 4), Inputs: map[string]string{"max": f2s(100), "min": f2s(0), "f": "1", "p": "2"}},
			}
		},
	}
}
