package main

// Long-lived solver processes spoken to over stdin/stdout in SMT-LIB2.

import (
	"bufio"
	"fmt"
	"io"
	"os"
	"os/exec"
	"strings"
	"sync/atomic"
	"time"
)

type SolverKind int

const (
	Z3 SolverKind = iota
	Z3New
	CVC5
)

func (k SolverKind) String() string { return [...]string{"z3", "z3-new", "cvc5"}[k] }

type Solver struct {
	kind      SolverKind
	cmd       *exec.Cmd
	in        io.WriteCloser
	out       *bufio.Reader
	timeout   int // ms per check
	dead      bool
	tactic    string
	tacticOff bool
	stateless bool
	// log of everything sent inside the current path scope (for portfolio fallback)
	log []string
}

type Stats struct {
	Unsat, Sat, Unknown, Errors int64
	SolverNs                    int64
	Fallbacks                   int64
}

var gstats Stats

func startSolver(kind SolverKind, timeoutMs int) (*Solver, error) {
	var cmd *exec.Cmd
	switch kind {
	case Z3:
		cmd = exec.Command("z3", "-in", "-smt2")
	case Z3New:
		cmd = exec.Command("z3-new", "-in", "-smt2")
	case CVC5:
		cmd = exec.Command("cvc5", "--incremental", "--lang=smt2", "--produce-models", fmt.Sprintf("--tlimit-per=%d", timeoutMs), "--fp-exp")
	}
	in, err := cmd.StdinPipe()
	if err != nil {
		return nil, err
	}
	outp, err := cmd.StdoutPipe()
	if err != nil {
		return nil, err
	}
	cmd.Stderr = cmd.Stdout
	if err := cmd.Start(); err != nil {
		return nil, err
	}
	s := &Solver{kind: kind, cmd: cmd, in: in, out: bufio.NewReaderSize(outp, 1<<20), timeout: timeoutMs}
	if kind != CVC5 {
		s.tactic = "(then simplify solve-eqs bit-blast sat)"
		s.raw("(set-option :produce-models true)")
		s.raw(fmt.Sprintf("(set-option :timeout %d)", timeoutMs))
	} else {
		s.raw("(set-logic ALL)")
	}
	return s, nil
}

func (s *Solver) raw(line string) {
	if s.dead {
		return
	}
	if _, err := io.WriteString(s.in, line+"\n"); err != nil {
		s.dead = true
	}
}

// Send a command that produces no output (declare/assert/push/pop) and log it.
func (s *Solver) Send(line string) {
	s.log = append(s.log, line)
	s.raw(line)
}

func (s *Solver) Close() {
	if s.cmd != nil && s.cmd.Process != nil {
		s.in.Close()
		s.cmd.Process.Kill()
		s.cmd.Wait()
	}
}

// readResp reads one s-expression or atom response after an (echo) marker protocol.
func (s *Solver) sync() (string, error) {
	// watchdog: a solver that ignores its own time limit is killed (the query counts as unknown)
	timer := time.AfterFunc(time.Duration(s.timeout+15000)*time.Millisecond, func() {
		if s.cmd != nil && s.cmd.Process != nil {
			s.cmd.Process.Kill()
		}
	})
	defer timer.Stop()
	return s.sync0()
}

func (s *Solver) sync0() (string, error) {
	// we send (echo "<<END>>") after each query and read until that line
	var sb strings.Builder
	for {
		line, err := s.out.ReadString('\n')
		if err != nil {
			s.dead = true
			return sb.String(), err
		}
		t := strings.TrimSpace(line)
		if t == "<<END>>" || t == "\"<<END>>\"" {
			return sb.String(), nil
		}
		sb.WriteString(line)
	}
}

type CheckResult int

const (
	RUnsat CheckResult = iota
	RSat
	RUnknown
)

func (r CheckResult) String() string { return [...]string{"unsat", "sat", "unknown"}[r] }

// Check asks satisfiability of the current context plus the extra assertion (which
// is pushed and popped).  If vars != nil and the answer is sat the model values of
// those constants are returned.
func (s *Solver) Check(extra string, vars []string) (CheckResult, map[string]string) {
	t0 := time.Now()
	defer func() {
		d := time.Since(t0)
		atomic.AddInt64(&gstats.SolverNs, int64(d))
		if slowLog && d > 300*time.Millisecond {
			x := extra
			if len(x) > 150 {
				x = x[:150]
			}
			fmt.Fprintf(os.Stderr, "  slow query %.2fs: %s\n", d.Seconds(), x)
		}
	}()
	if s.dead {
		atomic.AddInt64(&gstats.Errors, 1)
		return RUnknown, nil
	}
	if s.stateless {
		// real-arithmetic contexts: z3's incremental core degrades badly on mixed Int/Real goals that a
		// fresh process decides in milliseconds, so every query runs on a fresh solver fed with the
		// logged script of the current path
		return oneShotQuiet(s.kind, s.log, extra, vars, s.timeout)
	}
	if extra != "" {
		s.raw("(push 1)")
		s.raw("(assert " + extra + ")")
	}
	useTactic := s.kind != CVC5 && s.tactic != "" && !s.tacticOff
	if useTactic {
		s.raw(fmt.Sprintf("(check-sat-using (try-for %s %d))", s.tactic, s.timeout))
	} else {
		s.raw("(check-sat)")
	}
	s.raw("(echo \"<<END>>\")")
	resp, err := s.sync()
	res := RUnknown
	r := strings.TrimSpace(resp)
	if useTactic && err == nil && r != "sat" && r != "unsat" {
		// the tactic does not apply to this goal (non-BV sorts) or gave up: plain check-sat
		if slowLog {
			fmt.Fprintf(os.Stderr, "  tactic fallback: %.200s\n", r)
		}
		if strings.Contains(r, "(error") {
			s.tacticOff = true // stays off for this path scope
		}
		s.raw("(check-sat)")
		s.raw("(echo \"<<END>>\")")
		resp, err = s.sync()
		r = strings.TrimSpace(resp)
	}
	switch {
	case err != nil:
		atomic.AddInt64(&gstats.Errors, 1)
	case strings.Contains(r, "(error"):
		atomic.AddInt64(&gstats.Errors, 1)
		lastSolverError = r
	case r == "unsat":
		res = RUnsat
	case r == "sat":
		res = RSat
	case strings.HasPrefix(r, "unknown") || strings.HasPrefix(r, "timeout"):
		res = RUnknown
	default:
		// mixed output: take last line
		ls := strings.Split(r, "\n")
		switch strings.TrimSpace(ls[len(ls)-1]) {
		case "unsat":
			res = RUnsat
		case "sat":
			res = RSat
		}
		if len(ls) > 1 {
			lastSolverError = r
			res = RUnknown
			atomic.AddInt64(&gstats.Errors, 1)
		}
	}
	var model map[string]string
	if res == RSat && len(vars) > 0 {
		s.raw("(get-value (" + strings.Join(vars, " ") + "))")
		s.raw("(echo \"<<END>>\")")
		mv, _ := s.sync()
		model = parseModel(mv)
	}
	if extra != "" {
		s.raw("(pop 1)")
	}
	switch res {
	case RUnsat:
		atomic.AddInt64(&gstats.Unsat, 1)
	case RSat:
		atomic.AddInt64(&gstats.Sat, 1)
	default:
		atomic.AddInt64(&gstats.Unknown, 1)
	}
	return res, model
}

var lastSolverError string
var slowLog = os.Getenv("SYMGO_SLOW") != ""

// parseModel parses "((a #x01) (b true) (c (- 3)))" into name->value text.
func parseModel(s string) map[string]string {
	m := map[string]string{}
	toks := tokenize(s)
	// expect ( ( name value ) ... )
	pos := 0
	var parse func() interface{}
	parse = func() interface{} {
		if pos >= len(toks) {
			return nil
		}
		t := toks[pos]
		pos++
		if t == "(" {
			var l []interface{}
			for pos < len(toks) && toks[pos] != ")" {
				l = append(l, parse())
			}
			pos++
			return l
		}
		return t
	}
	top, _ := parse().([]interface{})
	for _, e := range top {
		p, ok := e.([]interface{})
		if !ok || len(p) != 2 {
			continue
		}
		name, _ := p[0].(string)
		m[name] = sexprString(p[1])
	}
	return m
}

func sexprString(e interface{}) string {
	switch v := e.(type) {
	case string:
		return v
	case []interface{}:
		parts := make([]string, len(v))
		for i, x := range v {
			parts[i] = sexprString(x)
		}
		return "(" + strings.Join(parts, " ") + ")"
	}
	return ""
}

func tokenize(s string) []string {
	var toks []string
	i := 0
	for i < len(s) {
		c := s[i]
		switch {
		case c == '(' || c == ')':
			toks = append(toks, string(c))
			i++
		case c == ' ' || c == '\n' || c == '\t' || c == '\r':
			i++
		case c == '|':
			j := i + 1
			for j < len(s) && s[j] != '|' {
				j++
			}
			toks = append(toks, s[i:j+1])
			i = j + 1
		default:
			j := i
			for j < len(s) && !strings.ContainsRune("() \n\t\r", rune(s[j])) {
				j++
			}
			toks = append(toks, s[i:j])
			i = j
		}
	}
	return toks
}

// oneShot runs a full script on a fresh solver of the given kind (portfolio fallback).
func oneShot(kind SolverKind, script []string, extra string, vars []string, timeoutMs int) (CheckResult, map[string]string) {
	s, err := startSolver(kind, timeoutMs)
	if err != nil {
		return RUnknown, nil
	}
	defer s.Close()
	for _, l := range script {
		if l == "(push 1)" || l == "(pop 1)" {
			continue
		}
		s.raw(l)
	}
	atomic.AddInt64(&gstats.Fallbacks, 1)
	return s.Check(extra, vars)
}

func oneShotQuiet(kind SolverKind, script []string, extra string, vars []string, timeoutMs int) (CheckResult, map[string]string) {
	s, err := startSolver(kind, timeoutMs)
	if err != nil {
		return RUnknown, nil
	}
	defer s.Close()
	s.tacticOff = true
	for _, l := range script {
		if l == "(push 1)" || l == "(pop 1)" {
			continue
		}
		s.raw(l)
	}
	return s.Check(extra, vars)
}
