package main

func init() {
	props["C01"] = &propDef{
		info: PropInfo{
			Bounds: []string{
				"vertical kernel: exact IEEE-754 binary64 claim f*2^(25-v) <= alt < (f+1)*2^(25-v) for every double alt in [-2^25, 2^25] and every vZoom 0..35 (case-split), outside the listed denormal region",
				"longitude kernel: for every real lon in [-180,180] and every hZoom 0..35 (case-split): 0 <= x < 2^h, and x is the tile containing lon unless lon is within 360*2^-51 degrees (1.6e-13, twice the worst-case evaluation error) of a tile boundary — proved in the relaxed encoding (reals + per-operation rounding error |d| <= 2^-53, underflow 2^-1075), which over-approximates IEEE arithmetic",
				"list API, numeric: 2..3 points sharing one concrete longitude/latitude with symbolic altitudes in [-1000,1000]: element i holds the vertical cell of altitude i (vZoom 0, 25, 26, 30, 35)", "latitude row: only that it is a function of (lat, hZoom) and sits in its field; list API: 0..3 points, sample of zoom pairs",
			},
			Outside:     []string{"numeric correctness of the latitude row y and 0 <= y < 2^h: libm (tan, cos, log) has no theory in the installed solvers and no documented error bound", "exact (non-banded) tile identity within 2^-12 tile widths of a longitude boundary: IEEE unsat did not finish in 600 s on any back end; the in-band off-by-one is a listed known finding", "lists longer than 3"},
			Assumptions: []string{"relaxed encoding: standard model fl(r) = r(1+d)+n for finite binary64 round-to-nearest operations"},
		},
		insts: func(tier string) []*Instance {
			var is []*Instance
			for v := 0; v <= 35; v++ {
				in := mk("shape", "VerifC01F", cs("v", v))
				in.Solver = CVC5
				in.Timeout = 120000
				is = append(is, in)
				in = mk("shape", "VerifC01X", cs("h", v))
				in.Relaxed = true
				in.Timeout = 60000
				is = append(is, in)
			}
			for _, h := range []int{0, 7, 35} {
				in := mk("shape", "VerifC01Y", cs("h", h))
				in.Opaque = true
				is = append(is, in)
			}
			for _, v := range []int{0, 25, 26, 30, 35} {
				for n := 2; n <= 3; n++ {
					if tier == "quick" && n == 3 && v != 26 {
						continue
					}
					in := mk("shape", "VerifC01ListVertical", cs("n", n, "v", v))
					in.Relaxed = true
					in.Timeout = 60000
					is = append(is, in)
				}
			}
			pairs := [][2]int{{0, 0}, {20, 20}, {35, 35}, {3, 30}, {30, 3}, {25, 26}}
			for _, p := range pairs {
				for n := 0; n <= 3; n++ {
					if tier == "quick" && n == 2 {
						continue
					}
					in := mk("shape", "VerifC01List", cs("n", n, "h", p[0], "v", p[1]))
					in.Opaque = true
					in.Timeout = 60000
					is = append(is, in)
				}
			}
			return is
		},
		tv: func(tier string, seed int64) []*TV {
			r := &rng{uint64(seed) + 1}
			var tvs []*TV
			for i := 0; i < 8; i++ {
				v := r.rangeI(0, 35)
				alt := (float64(r.next()%2000001)/1000000.0 - 1.0) * 33554432.0
				tvs = append(tvs, &TV{Harness: "VerifC01F", PkgDir: "shape", Case: cs("v", v), Inputs: map[string]string{"alt": f2s(alt)}})
				lon := (float64(r.next()%2000001)/1000000.0 - 1.0) * 180.0
				tvs = append(tvs, &TV{Harness: "VerifC01X", PkgDir: "shape", Case: cs("h", v), Inputs: map[string]string{"lon": f2s(lon)}})
			}
			tvs = append(tvs, &TV{Harness: "VerifC01X", PkgDir: "shape", Case: cs("h", 20), Inputs: map[string]string{"lon": f2s(139.753098)}})
			tvs = append(tvs, &TV{Harness: "VerifC01X", PkgDir: "shape", Case: cs("h", 3), Inputs: map[string]string{"lon": f2s(180)}})
			tvs = append(tvs, &TV{Harness: "VerifC01List", PkgDir: "shape", Case: cs("n", 2, "h", 25, "v", 25), Inputs: map[string]string{"lon0": f2s(139.753098), "lat0": f2s(35.685371), "alt0": f2s(10), "lon1": f2s(-0.1), "lat1": f2s(-51.5), "alt1": f2s(-3.5)}})
			return tvs
		},
	}
	c09PointInstances = func(tier string) []*Instance {
		var is []*Instance
		pairs := [][2]int{{35, 34}, {35, 0}, {26, 25}, {25, 24}, {25, 0}, {10, 3}, {1, 0}, {30, 26}}
		if tier == "thorough" {
			for f := 1; f <= 35; f += 2 {
				for c := 0; c < f; c += 5 {
					pairs = append(pairs, [2]int{f, c})
				}
			}
		}
		for _, p := range pairs {
			in := mk("shape", "VerifC09PointVertical", cs("vf", p[0], "vc", p[1]))
			in.Solver = CVC5
			in.Timeout = 120000
			is = append(is, in)
		}
		return is
	}
}
