package main

func init() {
	props["C16"] = &propDef{
		info: PropInfo{
			Bounds: []string{
				"operations: zoom change (out and in), merge, N-layer neighbourhood, quadkey->ID conversion (equal and mixed key zooms), tile conversion, extended overlap; two symbolic input IDs (tiles) per call at zooms (3,3), (25,26), of equal precision and (zoom change, merge, overlap) of mixed precision (second ID one level finer on both axes; for zoom change and merge also on one axis only)",
				"map iteration: every range over a map of <= 4 keys takes every order (forked by the executor; contents stay symbolic and are decided by the solver); more than 4 keys in one map = unsupported = inconclusive",
				"permutation = swap of the two inputs, duplication = first element repeated at the end; inputs handed over in slices with spare capacity under the frame check",
			},
			Outside: []string{"line and corridor operations (floating-point recursion: see C06/C14)", "lists longer than 2 (3 with the repetition)", "maps with more than 4 keys"},
		},
		insts: func(tier string) []*Instance {
			var is []*Instance
			zs := [][2]int{{3, 3}}
			if tier == "thorough" {
				zs = append(zs, [2]int{25, 26})
			}
			for _, z := range zs {
				for op := 0; op <= 10; op++ {
					c := cs("op", op, "h", z[0], "v", z[1], "mix", 0)
					if op == 5 { // merge, mixed precision in the list
						c = cs("op", 2, "h", z[0], "v", z[1], "mix", 1)
					}
					if op == 6 { // zoom change, mixed precision in the list
						c = cs("op", 0, "h", z[0], "v", z[1], "mix", 1)
					}
					if op == 7 { // merge to the zoom of the coarser ID, mixed precision in the list
						c = cs("op", 7, "h", z[0], "v", z[1], "mix", 1)
					}
					if op == 8 {
						c = cs("op", 7, "h", z[0], "v", z[1], "mix", 0)
					}
					if op == 9 { // zoom-in of a mixed-precision (possibly nested) list to the finer zoom
						c = cs("op", 9, "h", z[0], "v", z[1], "mix", 1)
					}
					if op == 10 { // quadkeys of mixed zooms in one list
						c = cs("op", 10, "h", z[0], "v", z[1], "mix", 1)
					}
					c["orders"] = 1
					if op == 9 {
						c["orders"] = 0 // 8..16 result keys: beyond the iteration-order bound; order-independence of Unique is shown by the other ops
					}
					in := mk("detector", "VerifC16Op", c)
					in.Unwind = 100
					in.MaxSeconds = 2400
					in.MaxPaths = 60000
					is = append(is, in)
				}
				// one-axis mixed precision (same x/y/vZoom with different hZoom, and the converse): zoom change and merge
				// (zoom (3,3) only: the (25,26) form of these cases has not been run clean, so it is not registered)
				for _, om := range [][2]int{{0, 2}, {1, 2}, {0, 3}, {1, 3}, {2, 2}, {2, 3}} {
					if z[0] != 3 {
						break
					}
					c := cs("op", om[0], "h", z[0], "v", z[1], "mix", om[1])
					c["orders"] = 1
					in := mk("detector", "VerifC16Op", c)
					in.Unwind = 100
					in.MaxSeconds = 2400
					in.MaxPaths = 60000
					is = append(is, in)
				}
				is = append(is, mk("detector", "VerifC16Overlap", cs("h", z[0], "v", z[1], "mix", 0)), mk("detector", "VerifC16Overlap", cs("h", z[0], "v", z[1], "mix", 1)))
			}
			for mix := 0; mix <= 1; mix++ {
				in := mk("detector", "VerifC16Tiles", cs("mix", mix))
				in.Unwind = 100
				is = append(is, in)
			}
			return is
		},
		tv: func(tier string, seed int64) []*TV {
			return []*TV{
				{Harness: "VerifC16Op", PkgDir: "detector", Unwind: 100, Case: cs("op", 0, "h", 3, "v", 3, "mix", 0, "orders", 1), Inputs: map[string]string{"x0": "5", "y0": "2", "f0": "-3", "x1": "4", "y1": "3", "f1": "-4"}},
				{Harness: "VerifC16Op", PkgDir: "detector", Unwind: 100, Case: cs("op", 2, "h", 3, "v", 3, "mix", 0, "orders", 1), Inputs: map[string]string{"x0": "5", "y0": "2", "f0": "-3", "x1": "5", "y1": "2", "f1": "-3"}},
				{Harness: "VerifC16Tiles", PkgDir: "detector", Unwind: 100, Case: cs("mix", 0), Inputs: map[string]string{"x0": "5", "y0": "2", "z0": "3", "x1": "5", "y1": "2", "z1": "3"}},
			}
		},
	}
}
