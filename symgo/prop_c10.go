package main

func init() {
	props["C10"] = &propDef{
		info: PropInfo{
			Bounds: []string{
				"notation round trip: lists of 0..3 IDs whose fields are arbitrary separator-free texts (token model: every string with the given arity), and 0..3 IDs with arbitrary int64 fields for the reverse direction",
				"object round trip: all five fields arbitrary int64",
				"expansion: horizontal zoom finer than the vertical by 0..6 levels (2^d IDs), vertical finer than the horizontal by 0..3 (quick) / 0..4 (thorough) levels (4^d IDs), at bases 0,1,10,24,25,33; indices symbolic; region equality through a symbolic probe cell",
			},
			Outside:     []string{"lists longer than 3", "expansion across more than the stated zoom difference (output size 4^d / 2^d)"},
			Assumptions: []string{"VerifC10StrModel is a self-check of the encoder's character-level string model (len, index, slice, range, ordering, Count/SplitN/FieldsFunc), not of the library", "token model of strings: an arbitrary string is a sequence of '/'-free fields with solver-chosen attributes (DESIGN §2.3)"},
		},
		insts: func(tier string) []*Instance {
			var is []*Instance
			for n := 0; n <= 3; n++ {
				is = append(is, mk("shape", "VerifC10Notation", cs("n", n)), mk("shape", "VerifC10NotationExt", cs("n", n)))
			}
			is = append(is, mk("shape", "VerifC10Arity", nil), mk("common/object", "VerifC10Object", nil), mk("common/object", "VerifC10ObjectText", nil), mk("transform", "VerifC10VoxelID", nil))
			// engine self-check: the character-level string model against strconv's renderings
			for k := 0; k <= 6; k++ {
				in := mk("transform", "VerifC10StrModel", cs("k", k))
				in.Unwind = 40
				if k == 5 {
					in.Solver = CVC5 // exact IEEE
					in.Timeout = 120000
				}
				is = append(is, in)
			}
			for _, b := range []int{0, 1, 10, 24, 25, 33} {
				for dh := 0; dh <= 6; dh++ {
					for dv := 0; dv <= 4; dv++ {
						if (dh > 0 && dv > 0) || (tier == "quick" && dv > 3) || b+dh > 35 || b+dv > 35 {
							continue
						}
						in := mk("transform", "VerifC10Expand", cs("h", b+dh, "v", b+dv))
						in.Unwind = 100
						if dv == 4 {
							in.Unwind = 300 // 256 IDs
						}
						is = append(is, in)
					}
				}
			}
			return is
		},
		tv: func(tier string, seed int64) []*TV {
			return []*TV{
				{Harness: "VerifC10Notation", PkgDir: "shape", Case: cs("n", 2), Inputs: map[string]string{"s0": "25/10/29803148/13212522", "s1": "a//+5/x"}},
				{Harness: "VerifC10Arity", PkgDir: "shape", Inputs: map[string]string{"s": "1/2/3"}},
				{Harness: "VerifC10Arity", PkgDir: "shape", Inputs: map[string]string{"s": "1/2/3/4/5"}},
				{Harness: "VerifC10Object", PkgDir: "common/object", Inputs: map[string]string{"h": "20", "x": "85263", "y": "65423", "v": "26", "f": "-56"}},
				{Harness: "VerifC10Expand", PkgDir: "transform", Unwind: 100, Case: cs("h", 3, "v", 5), Inputs: map[string]string{"x": "5", "y": "2", "f": "-7", "px": "20", "py": "8", "pf": "-7"}},
				{Harness: "VerifC10Expand", PkgDir: "transform", Unwind: 100, Case: cs("h", 5, "v", 3), Inputs: map[string]string{"x": "5", "y": "2", "f": "-7", "px": "5", "py": "2", "pf": "-28"}},
				{Harness: "VerifC10VoxelID", PkgDir: "transform", Inputs: map[string]string{"h": "20", "x": "85263", "y": "65423", "v": "26", "f": "-56"}},
				{Harness: "VerifC10StrModel", PkgDir: "transform", Unwind: 40, Case: cs("k", 0), Inputs: map[string]string{"v": "-90210"}},
				{Harness: "VerifC10StrModel", PkgDir: "transform", Unwind: 40, Case: cs("k", 1), Inputs: map[string]string{"q": "2914"}},
				{Harness: "VerifC10StrModel", PkgDir: "transform", Unwind: 40, Case: cs("k", 2), Inputs: map[string]string{"a": "9", "b": "10"}},
				{Harness: "VerifC10StrModel", PkgDir: "transform", Unwind: 40, Case: cs("k", 3), Inputs: map[string]string{"s": "25//x/7/"}},
				{Harness: "VerifC10StrModel", PkgDir: "transform", Unwind: 40, Case: cs("k", 6), Inputs: map[string]string{"a": "7", "b": "-3", "c": "7"}},
				{Harness: "VerifC10StrModel", PkgDir: "transform", Unwind: 40, Case: cs("k", 4), Inputs: map[string]string{"a": "-42", "b": "9223372036854775807"}},
				{Harness: "VerifC10StrModel", PkgDir: "transform", Unwind: 40, Case: cs("k", 5), Inputs: map[string]string{"x": f2s(-2.5), "y": f2s(0.49999999999999994)}},
				{Harness: "VerifC10StrModel", PkgDir: "transform", Unwind: 40, Case: cs("k", 5), Inputs: map[string]string{"x": f2s(0.49999999999999994), "y": f2s(-7.75)}},
				{Harness: "VerifC10StrModel", PkgDir: "transform", Unwind: 40, Case: cs("k", 5), Inputs: map[string]string{"x": f2s(4503599627370497.5), "y": f2s(3.5)}},
			}
		},
	}
}
