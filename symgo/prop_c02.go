package main

func init() {
	props["C02"] = &propDef{
		info: PropInfo{
			Bounds: []string{
				"latitude row case-split over {first row, row just north of the equator, last row} (row latitudes are then concrete values from the real libm; only x and f are symbolic)", "zoom pairs (h,v) case-split over {0,1,12,25,26,35} x {0,1,25,26,35} (quick: diagonal and four mixed pairs); x, y, f symbolic over the whole valid range, both signs for f",
				"altitude corners and centre altitude: exact; longitude corners and centre longitude: within 1e-11 degrees of the exact tile edges / middle (relaxed encoding: reals + rounding error per operation)",
				"shared faces: exact IEEE claims on the kernels — Alt(f)+Resolution is the double Alt(f+1); float64(x)+1 is the double float64(x+1) — from which the identical edge values follow because both voxels evaluate the same expression on that value",
				"centre: longitude within 1e-11 degrees of the exact middle of the tile, altitude exactly (f+1/2)*2^(25-v); the centre -> ID round trip in x and f then follows from C01's longitude and vertical kernels (composition argument, DESIGN §3 C02), the direct query was solver-unknown",
			},
			Outside:     []string{"numeric correctness of the row latitudes, the y half of the centre round trip, the effect of the 1e-10 degree latitude truncation at zoom 35 (atan, sinh, log, tan: no solver theory)", "exact (bit-level) value of the longitude corners"},
			Assumptions: []string{"sort.Float64s modelled as a compare-exchange network on NaN-free input", "relaxed encoding over-approximates IEEE-754 binary64 round-to-nearest"},
		},
		insts: func(tier string) []*Instance {
			var is []*Instance
			pairs := [][2]int{{0, 0}, {1, 1}, {12, 12}, {25, 25}, {26, 26}, {35, 35}, {3, 30}, {30, 3}, {35, 0}, {0, 35}}
			if tier == "thorough" {
				pairs = nil
				for _, h := range []int{0, 1, 2, 12, 24, 25, 26, 31, 35} {
					for _, v := range []int{0, 1, 24, 25, 26, 34, 35} {
						pairs = append(pairs, [2]int{h, v})
					}
				}
			}
			for pi, p := range pairs {
				for row := 0; row <= 2; row++ {
					if tier == "quick" && row != pi%3 {
						continue
					}
					for _, hn := range []string{"VerifC02Vertex", "VerifC02Center"} {
						in := mk("shape", hn, cs("h", p[0], "v", p[1], "row", row))
						in.Relaxed = true
						in.Timeout = 120000
						is = append(is, in)
					}
					st := mk("shape", "VerifC02VertexStruct", cs("h", p[0], "v", p[1], "row", row))
					st.Relaxed = true
					st.RelaxedUF = true
					st.Timeout = 120000
					is = append(is, st)
					if row == pi%3 {
						in := mk("shape", "VerifC02Faces", cs("h", p[0], "v", p[1]))
						in.Solver = CVC5
						in.Timeout = 120000
						is = append(is, in)
					}
				}
			}
			for _, z := range []int{0, 1, 20, 35} {
				in := mk("shape", "VerifC02Spatial", cs("z", z, "row", 1))
				in.Relaxed = true
				in.RelaxedUF = true
				is = append(is, in)
			}
			return is
		},
		tv: func(tier string, seed int64) []*TV {
			return []*TV{
				{Harness: "VerifC02Center", PkgDir: "shape", Case: cs("h", 20, "v", 25, "row", 1), Inputs: map[string]string{"x": "931277", "f": "10"}},
				{Harness: "VerifC02Center", PkgDir: "shape", Case: cs("h", 3, "v", 30, "row", 0), Inputs: map[string]string{"x": "7", "f": "-1"}},
				{Harness: "VerifC02Vertex", PkgDir: "shape", Case: cs("h", 3, "v", 30, "row", 2), Inputs: map[string]string{"x": "0", "f": "-1"}},
			}
		},
	}
}
