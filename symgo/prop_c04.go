package main

func init() {
	props["C04"] = &propDef{
		info: PropInfo{
			Bounds: []string{
				"free shape: 1..3 IDs (quick: 1..2), each at the target zoom, one level finer or one level coarser per axis (case-split), indices symbolic over the valid range of both signs; target zooms (H,V) in {0,1,24,25,34}^2 restricted so zooms stay in 0..35",
				"children shape: complete child set of a symbolic target voxel for (dh,dv) in {(1,1),(1,0),(0,1)} with one child dropped / duplicated / one arbitrary extra ID",
				"mixed-depth shape: a target voxel filled by one child (lower half) and two grandchildren (upper half) in all six list orders, and with a member missing",
				"idempotence (second merge executed symbolically on the first merge's symbolic result) for 1..2 IDs",
			},
			Outside: []string{"more than 3 free IDs or zoom spread above 1 (the unit-cell sets grow as 4^dh*2^dv per ID)"},
		},
		insts: func(tier string) []*Instance {
			var is []*Instance
			targets := [][2]int{{1, 1}, {0, 0}, {24, 25}, {25, 24}, {34, 34}, {1, 0}}
			if tier == "quick" {
				targets = targets[:4]
			}
			add := func(h string, c map[string]int64) {
				in := mk("integrate", h, c)
				in.Unwind = 300
				in.MaxSeconds = 1200
				is = append(is, in)
			}
			offs := [][2]int{{0, 0}, {1, 1}, {1, 0}, {0, 1}, {-1, 0}, {0, -1}}
			for _, t := range targets {
				H, V := t[0], t[1]
				okOff := func(o [2]int) bool { return H+o[0] >= 0 && V+o[1] >= 0 && H+o[0] <= 35 && V+o[1] <= 35 }
				for _, o := range offs {
					if okOff(o) {
						add("VerifC04Free", cs("k", 1, "H", H, "V", V, "dh0", o[0], "dv0", o[1], "idem", 1))
					}
				}
				pairs := [][2][2]int{{{1, 1}, {1, 1}}, {{0, 0}, {1, 1}}, {{1, 0}, {0, 1}}, {{1, 1}, {-1, 0}}, {{0, 0}, {0, 0}}, {{1, 0}, {1, 0}}, {{0, 1}, {0, 1}}, {{-1, 0}, {-1, 0}}, {{0, -1}, {0, -1}}, {{1, -1}, {1, -1}}}
				for _, p := range pairs {
					if okOff(p[0]) && okOff(p[1]) {
						add("VerifC04Free", cs("k", 2, "H", H, "V", V, "dh0", p[0][0], "dv0", p[0][1], "dh1", p[1][0], "dv1", p[1][1], "idem", 1))
					}
				}
				if tier == "thorough" {
					add("VerifC04Free", cs("k", 3, "H", H, "V", V, "dh0", 1, "dv0", 0, "dh1", 1, "dv1", 0, "dh2", 1, "dv2", 0, "idem", 0))
					add("VerifC04Free", cs("k", 3, "H", H, "V", V, "dh0", 0, "dv0", 1, "dh1", 0, "dv1", 1, "dh2", 0, "dv2", 0, "idem", 0))
				}
				if H < 35 && V < 35 {
					for _, d := range [][2]int{{1, 1}, {1, 0}, {0, 1}} {
						add("VerifC04Children", cs("H", H, "V", V, "dh", d[0], "dv", d[1], "drop", -1, "dupc", -1, "extra", 0))
						add("VerifC04Children", cs("H", H, "V", V, "dh", d[0], "dv", d[1], "drop", 1, "dupc", -1, "extra", 0))
						add("VerifC04Children", cs("H", H, "V", V, "dh", d[0], "dv", d[1], "drop", -1, "dupc", 0, "extra", 0))
						if d[0]+d[1] == 1 || tier == "thorough" {
							add("VerifC04Children", cs("H", H, "V", V, "dh", d[0], "dv", d[1], "drop", 0, "dupc", -1, "extra", 1))
						}
					}
					if H == V {
						add("VerifC04Spatial", cs("Z", H))
					}
					if V < 34 {
						// members of different depths filling one voxel, every list order; one order with a member missing
						for ord := 0; ord < 6; ord++ {
							add("VerifC04Mixed", cs("H", H, "V", V, "ord", ord, "drop", -1))
						}
						add("VerifC04Mixed", cs("H", H, "V", V, "ord", 3, "drop", 0))
						add("VerifC04Mixed", cs("H", H, "V", V, "ord", 3, "drop", 2))
					}
				}
			}
			return is
		},
		tv: func(tier string, seed int64) []*TV {
			return []*TV{
				{Harness: "VerifC04Children", PkgDir: "integrate", Unwind: 300, Case: cs("H", 1, "V", 1, "dh", 1, "dv", 1, "drop", -1, "dupc", -1, "extra", 0), Inputs: map[string]string{"tx0": "1", "ty0": "0", "tf0": "-1", "px0": "2", "py0": "1", "pf0": "-2", "Tx0": "1", "Ty0": "0", "Tf0": "-1"}},
				{Harness: "VerifC04Children", PkgDir: "integrate", Unwind: 300, Case: cs("H", 1, "V", 1, "dh", 1, "dv", 1, "drop", 1, "dupc", -1, "extra", 0), Inputs: map[string]string{"tx0": "1", "ty0": "0", "tf0": "0", "px0": "2", "py0": "1", "pf0": "0", "Tx0": "1", "Ty0": "0", "Tf0": "0"}},
				{Harness: "VerifC04Free", PkgDir: "integrate", Unwind: 300, Case: cs("k", 2, "H", 1, "V", 1, "dh0", 1, "dv0", 1, "dh1", 0, "dv1", 0, "idem", 1), Inputs: map[string]string{"ix0": "3", "iy0": "2", "if0": "1", "ix1": "1", "iy1": "1", "if1": "0", "px0": "3", "py0": "2", "pf0": "1", "Tx0": "1", "Ty0": "1", "Tf0": "0"}},
			}
		},
	}
}
