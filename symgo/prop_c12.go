package main

func init() {
	props["C12"] = &propDef{
		info: PropInfo{
			Bounds: []string{
				"index any int64, base offset |off| <= 2^40 (quick) / 2^60 (thorough) and one zoom symbolic per query; the source (resp. target) zoom 0..35 and the zoom-minus-exponent difference are case-split (quick: 11 differences in -35..35, thorough: all 71); base exponent = zoom - difference restricted to 0..35",
				"oracle in exact 128-bit ghost integers scaled by 2^35; no-overflow is shown structurally from declared operand magnitudes (checked) or by an obligation per ghost operation",
			},
			Outside: []string{"zooms or base exponents outside 0..35", "offsets beyond the stated magnitude"},
		},
		insts: func(tier string) []*Instance {
			ob := 40
			if tier == "thorough" {
				ob = 60
			}
			var is []*Instance
			to := 30000
			if tier == "thorough" {
				to = 300000
			}
			add := func(h string, c map[string]int64) {
				in := mk("transform", h, c)
				in.Timeout = to
				is = append(is, in)
			}
			// quick: every source zoom x a sample of shift distances; thorough: all distances
			dist := []int{-35, -26, -11, -2, -1, 0, 1, 2, 10, 25, 35}
			if tier == "thorough" {
				dist = nil
				for d := -35; d <= 35; d++ {
					dist = append(dist, d)
				}
			}
			for z := 0; z <= 35; z++ {
				for _, d := range dist {
					add("VerifC12Forward", cs("offbits", ob, "zi", z, "d2", d))
					add("VerifC12Reverse", cs("offbits", ob, "zo", z, "d3", d))
					if z <= 25 && d >= 0 {
						add("VerifC12Mutual", cs("offbits", ob, "zi", z, "d3", d))
					}
				}
			}
			return is
		},
		tv: func(tier string, seed int64) []*TV {
			r := &rng{uint64(seed) + 12}
			var tvs []*TV
			// vectors from the repository's own tests plus seeded ones
			lits := [][5]int64{{0, 25, 25, 25, 0}, {1, 25, 25, 25, -2}, {0, 24, 24, 25, 1}, {1, 1, 1, 25, 0}, {47, 25, 14, 14, 0}, {-1, 25, 25, 25, 8}, {3, 23, 25, 25, 8}}
			for i := 0; i < 6; i++ {
				zi := r.rangeI(0, 35)
				lits = append(lits, [5]int64{r.rangeI(-(1 << zi), (1<<zi)-1), zi, r.rangeI(0, 35), r.rangeI(0, 35), r.rangeI(-1000, 1000)})
			}
			for _, l := range lits {
				// l = {index, inputZoom, outputZoom, exponent, offset}
				tvs = append(tvs, &TV{Harness: "VerifC12Forward", PkgDir: "transform", Case: cs("offbits", 40, "zi", l[1], "d2", l[2]-l[3]), Inputs: map[string]string{"f": i2s(l[0]), "zo": i2s(l[2]), "off": i2s(l[4])}})
				k := l[0]
				if k < 0 {
					k = -k
				}
				tvs = append(tvs, &TV{Harness: "VerifC12Reverse", PkgDir: "transform", Case: cs("offbits", 40, "zo", l[2], "d3", l[3]-l[1]), Inputs: map[string]string{"k": i2s(k), "zk": i2s(l[1]), "off": i2s(l[4])}})
			}
			return tvs
		},
	}
}
