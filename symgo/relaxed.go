package main

// "relaxed" float encoding: reals with the standard rounding model.  Every rounded operation
// result is r*(1+d) + n with |d| <= 2^-53 (fresh per operation) and, for multiplication and
// division only, |n| <= 2^-1075 (underflow).  This over-approximates IEEE-754 binary64
// round-to-nearest arithmetic on finite values, so an `unsat` answer carries over to the real
// code; a `sat` answer is only a candidate and is replayed natively.  Exact operations: floor,
// ceil, abs, negation, comparisons, multiplication/division by a power-of-two constant (no
// rounding error away from underflow; the underflow term is kept).

import (
	"fmt"
	"math"
	"math/big"
	"strings"
)

const relU = "(/ 1.0 9007199254740992.0)" // 2^-53

var relMinNormal = "(/ 1.0 " + new(big.Int).Lsh(big.NewInt(1), 1022).String() + ".0)" // 2^-1022

var relTiny = "(/ 1.0 " + new(big.Int).Lsh(big.NewInt(1), 1075).String() + ".0)" // 2^-1075

func ivOf(f Float) (lo, hi float64, ok bool) {
	if f.IsC {
		return f.C, f.C, true
	}
	return f.Lo, f.Hi, f.HasIv
}

func down(x float64) float64 { return math.Nextafter(x, math.Inf(-1)) }
func up(x float64) float64   { return math.Nextafter(x, math.Inf(1)) }

func finite(x float64) bool { return x == x && !math.IsInf(x, 0) }

// withIv attaches an (outward-widened) enclosure of the rounded result
func withIv(f Float, lo, hi float64) Float {
	if !finite(lo) || !finite(hi) || lo > hi {
		return f
	}
	f.HasIv, f.Lo, f.Hi = true, down(down(lo)), up(up(hi))
	return f
}

// rndAbs: rounded result r + a with |a| <= max|r| * 2^-53 (+ 2^-1075 for mul/div): linear.
func (e *Exec) rndAbs(r string, lo, hi float64, underflow bool) string {
	return e.rnd(r, underflow)
}

func (e *Exec) rndAbsUnused(r string, lo, hi float64, underflow bool) string {
	m := math.Max(math.Abs(lo), math.Abs(hi))
	bound := new(big.Rat).SetFloat64(up(m))
	bound.Mul(bound, new(big.Rat).SetFrac(big.NewInt(1), new(big.Int).Lsh(big.NewInt(1), 53)))
	if underflow {
		bound.Add(bound, new(big.Rat).SetFrac(big.NewInt(1), new(big.Int).Lsh(big.NewInt(1), 1075)))
	}
	b := "(/ " + bound.Num().String() + ".0 " + bound.Denom().String() + ".0)"
	a := e.fresh("ra")
	e.declare(a, "Real")
	e.sol.Send(fmt.Sprintf("(assert (and (<= (- %s) %s) (<= %s %s)))", b, a, a, b))
	return "(+ " + r + " " + a + ")"
}

func realLit(c float64) string {
	if c != c || math.IsInf(c, 0) {
		return "0.0" // never produced for finite-domain harnesses; guarded by fNonFinite
	}
	r := new(big.Rat).SetFloat64(c)
	num, den := new(big.Int).Set(r.Num()), r.Denom()
	neg := num.Sign() < 0
	if neg {
		num.Neg(num)
	}
	var s string
	if den.Cmp(big.NewInt(1)) == 0 {
		s = num.String() + ".0"
	} else {
		s = "(/ " + num.String() + ".0 " + den.String() + ".0)"
	}
	if neg {
		return "(- " + s + ")"
	}
	return s
}

func (e *Exec) fT(f Float) string {
	if e.relaxed {
		if f.IsC {
			return realLit(f.C)
		}
		return f.Sym
	}
	return f.T()
}

func isPow2(c float64) bool {
	if c <= 0 || math.IsInf(c, 0) || c != c {
		return false
	}
	fr, _ := math.Frexp(c)
	return fr == 0.5
}

// rnd wraps an exact real result r with the rounding model, written with an absolute error
// variable a constrained relative to r: |a| <= 2^-53 * |r| (+ 2^-1075 for mul/div).  Because the
// bound is a constant times r, the constraint is linear whenever r is.
func (e *Exec) rnd(r string, underflow bool) string {
	rn := r
	if len(r) > 40 {
		rn = e.fresh("rx")
		e.declare(rn, "Real")
		e.sol.Send("(assert (= " + rn + " " + r + "))")
	}
	// the rounding error is a function of the exact result (fl is a function): an uninterpreted
	// function keeps two executions of the same computation equal
	var a string
	if e.relaxedUF {
		if !e.ufs["rerr"] {
			e.ufs["rerr"] = true
			e.sol.Send("(declare-fun rerr (Real) Real)")
		}
		a = "(rerr " + rn + ")"
		// rounding is monotone: instantiate r_i <= r_j => fl(r_i) <= fl(r_j) against earlier applications
		if len(e.rerrArgs) < 80 {
			for _, o := range e.rerrArgs {
				if o == rn {
					continue
				}
				e.sol.Send(fmt.Sprintf("(assert (and (=> (<= %s %s) (<= (+ %s (rerr %s)) (+ %s (rerr %s)))) (=> (<= %s %s) (<= (+ %s (rerr %s)) (+ %s (rerr %s))))))", o, rn, o, o, rn, rn, rn, o, rn, rn, o, o))
			}
			e.rerrArgs = append(e.rerrArgs, rn)
		}
	} else {
		a = e.fresh("ra")
		e.declare(a, "Real")
	}
	b := "(* " + relU + " (ite (>= " + rn + " 0.0) " + rn + " (- " + rn + ")))"
	if underflow && !e.noSubnormal {
		// the absolute term only exists for non-zero results in the subnormal range
		b = "(+ " + b + " (ite (and (not (= " + rn + " 0.0)) (< (- " + relMinNormal + ") " + rn + ") (< " + rn + " " + relMinNormal + ")) " + relTiny + " 0.0))"
	}
	e.sol.Send(fmt.Sprintf("(assert (and (<= (- %s) %s) (<= %s %s)))", b, a, a, b))
	// rounding is monotone: it never crosses a representable number (0 and the float constants the
	// library compares against)
	e.anchor(rn, "(+ "+rn+" "+a+")")
	return "(+ " + rn + " " + a + ")"
}

// opaqueOp: structure-only mode — every float operation is an uninterpreted function of its
// operands (congruence only); sound for unsat, used for claims about order, length and field
// positions that do not depend on the numeric values.
func (e *Exec) opaqueOp(name string, args ...string) Float {
	if !e.ufs["op_"+name] {
		e.ufs["op_"+name] = true
		e.sol.Send("(declare-fun op_" + name + " (" + strings.TrimSpace(strings.Repeat("Real ", len(args))) + ") Real)")
	}
	e.stubs["structure-only mode: float "+name+" is an uninterpreted function"] = true
	return e.nmR(Float{Sym: "(op_" + name + " " + strings.Join(args, " ") + ")"})
}

func (e *Exec) fBinR(op string, a, b Float) Float {
	if a.IsC && b.IsC {
		return fBin(op, a, b)
	}
	if e.opaque {
		return e.opaqueOp(map[string]string{"+": "add", "-": "sub", "*": "mul", "/": "div"}[op], e.fT(a), e.fT(b))
	}
	if r, ok := e.dyExact(op, a, b); ok {
		return r
	}
	// multiplication / division by exactly +-1 is exact
	if op == "*" && a.IsC && (a.C == 1 || a.C == -1) && !e.opaque {
		if a.C == 1 {
			return b
		}
		return e.fNegX(b)
	}
	if (op == "*" || op == "/") && b.IsC && (b.C == 1 || b.C == -1) && !e.opaque {
		if b.C == 1 {
			return a
		}
		return e.fNegX(a)
	}
	x, y := e.fT(a), e.fT(b)
	al, ah, aok := ivOf(a)
	bl, bh, bok := ivOf(b)
	have := aok && bok
	switch op {
	case "+", "-":
		// integer-valued operands whose exact sum stays below 2^53 in magnitude: no rounding
		if ia, ib := intROf(a), intROf(b); ia != "" && ib != "" {
			k := "(" + op + " " + ia + " " + ib + ")"
			in := symBool("(and (<= (- 9007199254740992) " + k + ") (<= " + k + " 9007199254740992))")
			if e.provable(in) {
				return Float{Sym: "(to_real " + k + ")", IntR: k}
			}
		}
		t := "(" + op + " " + x + " " + y + ")"
		if have {
			lo, hi := al+bl, ah+bh
			if op == "-" {
				lo, hi = al-bh, ah-bl
			}
			if finite(lo) && finite(hi) {
				return withIv(e.nmR(Float{Sym: e.rndAbs(t, lo, hi, false)}), lo, hi)
			}
		}
		return e.nmR(Float{Sym: e.rnd(t, false)})
	case "*":
		// integer-valued operands whose exact product stays below 2^53 in magnitude: no rounding
		if ia, ib := intROf(a), intROf(b); ia != "" && ib != "" && (a.IsC || b.IsC) {
			k := "(* " + ia + " " + ib + ")"
			in := symBool("(and (<= (- 9007199254740992) " + k + ") (<= " + k + " 9007199254740992))")
			if e.provable(in) {
				return Float{Sym: "(to_real " + k + ")", IntR: k}
			}
		}
		t := "(* " + x + " " + y + ")"
		lo, hi := 0.0, 0.0
		if have {
			ps := []float64{al * bl, al * bh, ah * bl, ah * bh}
			lo, hi = ps[0], ps[0]
			for _, p := range ps[1:] {
				lo, hi = math.Min(lo, p), math.Max(hi, p)
			}
			have = finite(lo) && finite(hi)
		}
		if (a.IsC && isPow2(math.Abs(a.C))) || (b.IsC && isPow2(math.Abs(b.C))) {
			r := e.nmR(Float{Sym: e.rndUnderflowOnly(t)})
			if have {
				r = withIv(r, lo, hi)
			}
			return r
		}
		if !a.IsC && !b.IsC {
			have = false // symbolic * symbolic stays non-linear anyway
		}
		if have {
			return withIv(e.nmR(Float{Sym: e.rndAbs(t, lo, hi, true)}), lo, hi)
		}
		return e.nmR(Float{Sym: e.rnd(t, true)})
	case "/":
		t := "(/ " + x + " " + y + ")"
		lo, hi := 0.0, 0.0
		if have && (bl > 0 || bh < 0) {
			ps := []float64{al / bl, al / bh, ah / bl, ah / bh}
			lo, hi = ps[0], ps[0]
			for _, p := range ps[1:] {
				lo, hi = math.Min(lo, p), math.Max(hi, p)
			}
			have = finite(lo) && finite(hi)
		} else {
			have = false
		}
		if b.IsC && isPow2(math.Abs(b.C)) {
			r := e.nmR(Float{Sym: e.rndUnderflowOnly(t)})
			if have {
				r = withIv(r, lo, hi)
			}
			return r
		}
		if !b.IsC {
			// division by zero: SMT-LIB leaves (/ x 0.0) unspecified, i.e. an arbitrary value, which
			// over-approximates the IEEE result (no trap in Go)
			have = false
		}
		if have {
			return withIv(e.nmR(Float{Sym: e.rndAbs(t, lo, hi, true)}), lo, hi)
		}
		return e.nmR(Float{Sym: e.rnd(t, true)})
	}
	panic("fBinR " + op)
}

func (e *Exec) rndUnderflowOnly(r string) string {
	if e.noSubnormal {
		return r // exact: scaling by a power of two with no subnormal result (instance assumption)
	}
	rn := r
	if len(r) > 40 {
		rn = e.fresh("rx")
		e.declare(rn, "Real")
		e.sol.Send("(assert (= " + rn + " " + r + "))")
	}
	var n string
	if e.relaxedUF {
		if !e.ufs["rerrp"] {
			e.ufs["rerrp"] = true
			e.sol.Send("(declare-fun rerrp (Real) Real)")
		}
		n = "(rerrp " + rn + ")"
	} else {
		n = e.fresh("ru")
		e.declare(n, "Real")
	}
	bb := "(ite (and (not (= " + rn + " 0.0)) (< (- " + relMinNormal + ") " + rn + ") (< " + rn + " " + relMinNormal + ")) " + relTiny + " 0.0)"
	e.sol.Send(fmt.Sprintf("(assert (and (<= (- %s) %s) (<= %s %s)))", bb, n, n, bb))
	e.anchor(rn, "(+ "+rn+" "+n+")")
	return "(+ " + rn + " " + n + ")"
}

func (e *Exec) nmR(f Float) Float {
	if f.IsC || len(f.Sym) < nameThreshold {
		return f
	}
	n := e.fresh("r")
	e.declare(n, "Real")
	e.sol.Send("(assert (= " + n + " " + f.Sym + "))")
	f.Sym = n
	return f
}

// ---- dispatchers used by the executor

func (e *Exec) fBinX(op string, a, b Float) Float {
	if e.relaxed {
		return e.fBinR(op, a, b)
	}
	return e.nmF(fBin(op, a, b))
}

func (e *Exec) fCmpX(op string, a, b Float) Bool {
	if !e.relaxed {
		return e.nmB(fCmp(op, a, b))
	}
	if a.IsC && b.IsC {
		return fCmp(op, a, b)
	}
	x, y := e.fT(a), e.fT(b)
	switch op {
	case "==":
		return symBool("(= " + x + " " + y + ")")
	case "!=":
		return symBool("(not (= " + x + " " + y + "))")
	case "<":
		return symBool("(< " + x + " " + y + ")")
	case "<=":
		return symBool("(<= " + x + " " + y + ")")
	case ">":
		return symBool("(> " + x + " " + y + ")")
	case ">=":
		return symBool("(>= " + x + " " + y + ")")
	}
	panic("fCmpX " + op)
}

func (e *Exec) fNegX(a Float) Float {
	if !e.relaxed || a.IsC {
		return fNeg(a)
	}
	r := Float{Sym: "(- " + a.Sym + ")"}
	if a.IntR != "" {
		r.IntR, r.Scale = "(- "+a.IntR+")", a.Scale
	}
	if a.HasIv {
		r.HasIv, r.Lo, r.Hi = true, -a.Hi, -a.Lo
	}
	return r
}

func (e *Exec) fUnX(name string, a Float) Float {
	if !e.relaxed || a.IsC {
		return e.nmF(fUn(name, a))
	}
	if e.opaque {
		return e.opaqueOp(name, a.Sym)
	}
	if name != "abs" {
		if e.roundMemo == nil {
			e.roundMemo = map[string]Float{}
		}
		key := name + "|" + a.Sym
		if r, ok := e.roundMemo[key]; ok {
			return r
		}
	}
	switch name {
	case "abs":
		r := e.nmR(Float{Sym: "(ite (>= " + a.Sym + " 0.0) " + a.Sym + " (- " + a.Sym + "))"})
		if a.HasIv {
			r.HasIv, r.Lo, r.Hi = true, 0, math.Max(math.Abs(a.Lo), math.Abs(a.Hi))
		}
		return r
	case "floor":
		if a.IntR != "" && a.Scale >= 0 {
			return a
		}
		if a.IntR != "" && a.Scale < 0 && a.Scale >= -200 {
			// floor of an exact dyadic k*2^-s is the Euclidean quotient (SMT-LIB div rounds toward -infinity for a positive divisor)
			r := dyFloat("(div "+a.IntR+" "+new(big.Int).Lsh(big.NewInt(1), uint(-a.Scale)).String()+")", 0)
			e.roundMemo[name+"|"+a.Sym] = r
			return r
		}
		k := e.fresh("rk")
		e.declare(k, "Int")
		e.sol.Send(fmt.Sprintf("(assert (and (<= (to_real %s) %s) (< %s (+ (to_real %s) 1.0))))", k, a.Sym, a.Sym, k))
		r := Float{Sym: "(to_real " + k + ")", IntR: k}
		e.roundMemo[name+"|"+a.Sym] = r
		return r
	case "ceil":
		if a.IntR != "" && a.Scale >= 0 {
			return a
		}
		k := e.fresh("rk")
		e.declare(k, "Int")
		e.sol.Send(fmt.Sprintf("(assert (and (< (- (to_real %s) 1.0) %s) (<= %s (to_real %s))))", k, a.Sym, a.Sym, k))
		r := Float{Sym: "(to_real " + k + ")", IntR: k}
		e.roundMemo[name+"|"+a.Sym] = r
		return r
	case "trunc", "round":
		if a.IntR != "" && a.Scale >= 0 {
			return a
		}
		k := e.fresh("rk")
		e.declare(k, "Int")
		if name == "trunc" {
			// toward zero: k = floor(a) for a >= 0, ceil(a) for a < 0
			e.sol.Send(fmt.Sprintf("(assert (ite (>= %s 0.0) (and (<= (to_real %s) %s) (< %s (+ (to_real %s) 1.0))) (and (< (- (to_real %s) 1.0) %s) (<= %s (to_real %s)))))", a.Sym, k, a.Sym, a.Sym, k, k, a.Sym, a.Sym, k))
		} else {
			// half away from zero: k - 1/2 <= a < k + 1/2 for a >= 0, k - 1/2 < a <= k + 1/2 for a < 0
			e.sol.Send(fmt.Sprintf("(assert (ite (>= %s 0.0) (and (<= (- (to_real %s) 0.5) %s) (< %s (+ (to_real %s) 0.5))) (and (< (- (to_real %s) 0.5) %s) (<= %s (+ (to_real %s) 0.5)))))", a.Sym, k, a.Sym, a.Sym, k, k, a.Sym, a.Sym, k))
		}
		return Float{Sym: "(to_real " + k + ")", IntR: k}
	}
	e.unsupported("relaxed encoding of math.%s", name)
	return Float{}
}

func (e *Exec) fIteX(c Bool, a, b Float) Float {
	if !e.relaxed {
		return e.nmF(fIte(c, a, b))
	}
	if c.IsC {
		if c.C {
			return a
		}
		return b
	}
	if ka, sa, oka := dyOf(a); oka {
		if kb, sb, okb := dyOf(b); okb {
			sc := sa
			if sb < sc {
				sc = sb
			}
			if sa-sc <= 200 && sb-sc <= 200 {
				k := "(ite " + c.Sym + " " + scaleInt(ka, sa-sc) + " " + scaleInt(kb, sb-sc) + ")"
				if len(k) > nameThreshold {
					n := e.fresh("rk")
					e.declare(n, "Int")
					e.sol.Send("(assert (= " + n + " " + k + "))")
					k = n
				}
				return dyFloat(k, sc)
			}
		}
	}
	r := e.nmR(Float{Sym: "(ite " + c.Sym + " " + e.fT(a) + " " + e.fT(b) + ")"})
	al, ah, aok := ivOf(a)
	bl, bh, bok := ivOf(b)
	if aok && bok {
		r.HasIv, r.Lo, r.Hi = true, math.Min(al, bl), math.Max(ah, bh)
	}
	return r
}

// intROf: an SMT Int term equal to the float's value, when it is known to be an integer
func intROf(f Float) string {
	if !f.IsC && f.Scale != 0 {
		return ""
	}
	if f.IsC {
		if f.C == math.Trunc(f.C) && math.Abs(f.C) < 1<<62 {
			v := int64(f.C)
			if v < 0 {
				return fmt.Sprintf("(- %d)", -v)
			}
			return fmt.Sprint(v)
		}
		return ""
	}
	return f.IntR
}

// int -> float
func (e *Exec) iToFX(a Int) Float {
	if !e.relaxed || a.IsC {
		return iToF(a)
	}
	if e.opaque {
		if !e.ufs["op_i2f"] {
			e.ufs["op_i2f"] = true
			e.sol.Send("(declare-fun op_i2f ((_ BitVec 64)) Real)")
		}
		return Float{Sym: "(op_i2f " + iConv(a, 64, a.Signed).T() + ")"}
	}
	var r string
	if rf := riFull(a); rf != "" {
		r = "(to_real " + rf + ")"
	} else if a.Signed {
		t := a.T()
		r = fmt.Sprintf("(to_real (ite (bvslt %s %s) (- (bv2int %s) %s) (bv2int %s)))", t, bvLit(a.W, 0), t, new(big.Int).Lsh(big.NewInt(1), uint(a.W)).String(), t)
	} else {
		r = "(to_real (bv2int " + a.T() + "))"
	}
	cp := a
	// exact below 2^53 in magnitude (checked), otherwise rounded
	lim := mkInt(a.W, a.Signed, 1<<53)
	small := iCmp("<=", a, lim)
	if a.Signed {
		small = bAnd(small, iCmp(">=", a, iNeg(lim)))
	}
	if e.provable(small) {
		ri := riFull(a)
		if ri != "" && a.Off != 0 {
			n := e.fresh("rk")
			e.declare(n, "Int")
			e.sol.Send("(assert (= " + n + " " + ri + "))")
			ri = n
		}
		if ri == "" {
			n := e.fresh("rk")
			e.declare(n, "Int")
			e.sol.Send("(assert (= (to_real " + n + ") " + r + "))")
			ri = n
		}
		return Float{Sym: "(to_real " + ri + ")", IntR: ri, FromInt: &cp}
	}
	return e.nmR(Float{Sym: e.rnd(r, false), FromInt: &cp})
}

// float -> int64 (truncation toward zero; the out-of-range amd64 value is not modelled: obligation)
func (e *Exec) fToIX(a Float, w int, signed bool) Int {
	if !e.relaxed || a.IsC {
		return e.nmI(fToI(a, w, signed))
	}
	if w != 64 || !signed {
		e.unsupported("relaxed float->int for a type other than int64")
	}
	if e.opaque {
		if !e.ufs["op_f2i"] {
			e.ufs["op_f2i"] = true
			e.sol.Send("(declare-fun op_f2i (Real) (_ BitVec 64))")
		}
		return e.nmI(Int{W: 64, Signed: true, Sym: "(op_f2i " + a.Sym + ")"})
	}
	tr := "(ite (>= " + a.Sym + " 0.0) (to_int " + a.Sym + ") (- (to_int (- " + a.Sym + "))))"
	if a.IntR != "" && a.Scale == 0 {
		tr = a.IntR
	}
	n := e.fresh("ri")
	e.declare(n, "Int")
	// amd64 cvttsd2si: out-of-range values convert to -2^63
	e.sol.Send("(assert (= " + n + " (let ((tr " + tr + ")) (ite (and (<= (- 9223372036854775808) tr) (<= tr 9223372036854775807)) tr (- 9223372036854775808)))))")
	// the bit-vector twin is written inline so that int2bv only enters queries that really use it
	bv := "((_ int2bv 64) " + n + ")"
	return Int{W: 64, Signed: true, Sym: bv, RI: n}
}

// ---- exact ghost reals for oracles (relaxed mode): no rounding on either side; natively math/big.Rat

type RealV struct {
	IsC bool
	C   *big.Rat
	Sym string
}

func ratLit(r *big.Rat) string {
	num, den := new(big.Int).Set(r.Num()), r.Denom()
	neg := num.Sign() < 0
	if neg {
		num.Neg(num)
	}
	s := "(/ " + num.String() + ".0 " + den.String() + ".0)"
	if den.Cmp(big.NewInt(1)) == 0 {
		s = num.String() + ".0"
	}
	if neg {
		return "(- " + s + ")"
	}
	return s
}

func (r RealV) T() string {
	if r.IsC {
		return ratLit(r.C)
	}
	return r.Sym
}

func (e *Exec) realPrim(name string, args []Value) (Value, bool) {
	switch name {
	case "vR": // exact value of a float64
		f := args[0].(Float)
		if f.IsC {
			return RealV{IsC: true, C: new(big.Rat).SetFloat64(f.C)}, true
		}
		if !e.relaxed {
			e.unsupported("ghost reals need the relaxed float encoding")
		}
		return RealV{Sym: f.Sym}, true
	case "vRI": // exact value of an int64
		i := args[0].(Int)
		if i.IsC {
			return RealV{IsC: true, C: new(big.Rat).SetInt64(i.sval())}, true
		}
		if rf := riFull(i); rf != "" {
			return RealV{Sym: "(to_real " + rf + ")"}, true
		}
		t := i.T()
		return RealV{Sym: fmt.Sprintf("(to_real (ite (bvslt %s %s) (- (bv2int %s) %s) (bv2int %s)))", t, bvLit(i.W, 0), t, new(big.Int).Lsh(big.NewInt(1), uint(i.W)).String(), t)}, true
	case "vRAdd", "vRSub", "vRMul", "vRDiv":
		a, b := args[0].(RealV), args[1].(RealV)
		if a.IsC && b.IsC {
			r := new(big.Rat)
			switch name {
			case "vRAdd":
				r.Add(a.C, b.C)
			case "vRSub":
				r.Sub(a.C, b.C)
			case "vRMul":
				r.Mul(a.C, b.C)
			default:
				if b.C.Sign() == 0 {
					e.unsupported("ghost real division by zero")
				}
				r.Quo(a.C, b.C)
			}
			return RealV{IsC: true, C: r}, true
		}
		op := map[string]string{"vRAdd": "+", "vRSub": "-", "vRMul": "*", "vRDiv": "/"}[name]
		if name == "vRDiv" && !(b.IsC && b.C.Sign() != 0) {
			e.unsupported("ghost real division by a symbolic value")
		}
		r := RealV{Sym: "(" + op + " " + a.T() + " " + b.T() + ")"}
		if len(r.Sym) > nameThreshold {
			n := e.fresh("gr")
			e.declare(n, "Real")
			e.sol.Send("(assert (= " + n + " " + r.Sym + "))")
			r.Sym = n
		}
		return r, true
	case "vRLt", "vRLe":
		a, b := args[0].(RealV), args[1].(RealV)
		if a.IsC && b.IsC {
			c := a.C.Cmp(b.C)
			if name == "vRLt" {
				return mkBool(c < 0), true
			}
			return mkBool(c <= 0), true
		}
		if name == "vRLt" {
			return symBool("(< " + a.T() + " " + b.T() + ")"), true
		}
		return symBool("(<= " + a.T() + " " + b.T() + ")"), true
	}
	return nil, false
}

// anchors: exactly representable doubles; r >= c implies fl(r) >= c and r <= c implies fl(r) <= c.
var relAnchors = []float64{0, 180, -180}

func (e *Exec) anchor(r, fl string) {
	var parts []string
	for _, c := range relAnchors {
		l := realLit(c)
		parts = append(parts, fmt.Sprintf("(=> (>= %s %s) (>= %s %s)) (=> (<= %s %s) (<= %s %s))", r, l, fl, l, r, l, fl, l))
	}
	// the float inputs of the harness are doubles, hence representable: rounding does not cross them
	if e.relaxedUF {
		for _, in := range e.inputs {
			if in.Kind == "real" && len(parts) < 16 {
				l := in.Sym
				parts = append(parts, fmt.Sprintf("(=> (>= %s %s) (>= %s %s)) (=> (<= %s %s) (<= %s %s))", r, l, fl, l, r, l, fl, l))
			}
		}
	}
	e.sol.Send("(assert (and " + strings.Join(parts, " ") + "))")
}

// dyOf: the value as k * 2^s with k an SMT Int term (dyadic provenance): constants always, symbolic
// values when the executor has tracked it.
func dyOf(f Float) (k string, s int, ok bool) {
	if f.IsC {
		if f.C != f.C || math.IsInf(f.C, 0) {
			return "", 0, false
		}
		if f.C == 0 {
			return "0", 0, true
		}
		fr, ex := math.Frexp(f.C) // f.C = fr * 2^ex, 0.5 <= |fr| < 1
		m := int64(fr * (1 << 53))
		ex -= 53
		for m%2 == 0 {
			m /= 2
			ex++
		}
		if m < 0 {
			return fmt.Sprintf("(- %d)", -m), ex, true
		}
		return fmt.Sprint(m), ex, true
	}
	if f.IntR != "" {
		return f.IntR, f.Scale, true
	}
	return "", 0, false
}

func dyFloat(k string, s int) Float {
	sym := "(to_real " + k + ")"
	if s > 0 {
		sym = "(* " + sym + " " + new(big.Int).Lsh(big.NewInt(1), uint(s)).String() + ".0)"
	} else if s < 0 {
		sym = "(/ " + sym + " " + new(big.Int).Lsh(big.NewInt(1), uint(-s)).String() + ".0)"
	}
	return Float{Sym: sym, IntR: k, Scale: s}
}

func scaleInt(k string, d int) string {
	if d == 0 {
		return k
	}
	return "(* " + k + " " + new(big.Int).Lsh(big.NewInt(1), uint(d)).String() + ")"
}

// dyExact tries to compute a op b exactly on dyadic provenance: the result is exact in binary64
// when its integer mantissa k satisfies |k| <= 2^53 and its scale is inside the exponent range.
func (e *Exec) dyExact(op string, a, b Float) (Float, bool) {
	ka, sa, oka := dyOf(a)
	kb, sb, okb := dyOf(b)
	if !oka || !okb {
		return Float{}, false
	}
	var k string
	var s int
	switch op {
	case "+", "-":
		s = sa
		if sb < s {
			s = sb
		}
		if sa-s > 200 || sb-s > 200 {
			return Float{}, false
		}
		k = "(" + op + " " + scaleInt(ka, sa-s) + " " + scaleInt(kb, sb-s) + ")"
	case "*":
		if !a.IsC && !b.IsC {
			return Float{}, false
		}
		switch {
		case kb == "1":
			k, s = ka, sa+sb
		case ka == "1":
			k, s = kb, sa+sb
		default:
			k, s = "(* "+ka+" "+kb+")", sa+sb
		}
	case "/":
		if !b.IsC || !isPow2(math.Abs(b.C)) {
			return Float{}, false
		}
		// kb is +-1 for a power of two
		k, s = ka, sa-sb
		if b.C < 0 {
			k = "(- " + ka + ")"
		}
	default:
		return Float{}, false
	}
	if s < -1000 || s > 900 {
		return Float{}, false
	}
	if len(k) > nameThreshold {
		n := e.fresh("rk")
		e.declare(n, "Int")
		e.sol.Send("(assert (= " + n + " " + k + "))")
		k = n
	}
	in := symBool("(and (<= (- 9007199254740992) " + k + ") (<= " + k + " 9007199254740992))")
	if !e.provable(in) {
		return Float{}, false
	}
	return dyFloat(k, s), true
}
