package main

func init() {
	props["C06"] = &propDef{
		info: PropInfo{
			Bounds: []string{
				"VERTICAL segments only: both end points at one concrete longitude/latitude (139.75, 35.5), (hZoom, vZoom) case-split over hZoom 20 x vZoom {0, 10, 25, 26, 33, 34, 35}, plus (31,33), (31,35), (35,34), (30,35) and the single-zoom forms 25 and 35 (both sides of both threshold switches, h >= 31 and v >= 34)",
				"grid altitudes: both altitudes any multiples of 2^-20 m in [-2^25, 2^25) m whose cells are at most `span` apart (quick 4, thorough 8); every midpoint of the recursion is then exact in binary64 and the whole run is decided over the integers (relaxed encoding with dyadic exactness, one-shot z3 5.1 per query): the result is exactly the contiguous run of cells between the end cells (count + range + pairwise distinct), both end voxels included, one ID when the ends share a cell; at vZoom 25 also: the spatial-ID (h = v) form is the same set",
				"arbitrary doubles (exact IEEE, cvc5), thorough tier only: vZoom 0 and 10, end cells at most 1 apart",
				"both end points in one voxel (any points, any zooms 0..35 case-sampled; float arithmetic uninterpreted): the result is that single ID",
			},
			Outside: []string{"every segment that is not vertical: the horizontal kernels divide by 360 and call libm at every level of the midpoint recursion, no solver decided them — so the longitude/latitude thresholds, corner crossings and the chain connectivity of slanted segments are NOT decided", "altitudes off the 2^-20 m grid for spans above 1 cell (rounding of the midpoints)", "vertical segments spanning more than 8 cells"},
		},
		insts: func(tier string) []*Instance {
			var is []*Instance
			span := 4
			if tier == "thorough" {
				span = 8
			}
			for _, v := range []int{0, 10, 25, 26, 33, 34, 35} {
				g := mk("shape", "VerifC06Vertical", cs("h", 20, "v", v, "span", span, "grid", 20, "spatial", 0))
				g.Relaxed = true
				g.Solver = Z3New
				g.Stateless = true // z3's one-shot pipeline decides these Int/Real goals in milliseconds, its incremental core times out
				g.Unwind = 60
				g.Timeout = 120000
				g.MaxSeconds = 300
				is = append(is, g)
			}
			// horizontal zooms on the far side of the horizontal threshold switch (h >= 31) combined with both sides of the vertical one
			for _, z := range [][2]int{{31, 33}, {31, 35}, {35, 34}, {30, 35}} {
				g := mk("shape", "VerifC06Vertical", cs("h", z[0], "v", z[1], "span", span, "grid", 20, "spatial", 0))
				g.Relaxed = true
				g.Solver = Z3New
				g.Stateless = true
				g.Unwind = 60
				g.Timeout = 120000
				g.MaxSeconds = 300
				is = append(is, g)
			}
			sp35 := mk("shape", "VerifC06Vertical", cs("h", 35, "v", 35, "span", 3, "grid", 20, "spatial", 1))
			sp35.Relaxed = true
			sp35.Solver = Z3New
			sp35.Stateless = true
			sp35.Unwind = 60
			sp35.Timeout = 120000
			is = append(is, sp35)
			sp := mk("shape", "VerifC06Vertical", cs("h", 25, "v", 25, "span", 2, "grid", 20, "spatial", 1))
			sp.Relaxed = true
			sp.Solver = Z3New
			sp.Stateless = true
			sp.Unwind = 60
			sp.Timeout = 120000
			is = append(is, sp)
			if tier == "thorough" {
				for _, v := range []int{0, 10} {
					in := mk("shape", "VerifC06Vertical", cs("h", 20, "v", v, "span", 1, "grid", 0, "spatial", 0))
					in.Solver = CVC5
					in.Unwind = 60
					in.Timeout = 300000
					in.MaxSeconds = 3000
					is = append(is, in)
				}
			}
			for _, z := range [][2]int{{0, 0}, {20, 25}, {35, 35}, {31, 34}} {
				in := mk("shape", "VerifC06SameVoxel", cs("h", z[0], "v", z[1]))
				in.Opaque = true
				in.Unwind = 60
				is = append(is, in)
			}
			return is
		},
		tv: func(tier string, seed int64) []*TV {
			return []*TV{
				{Harness: "VerifC06Vertical", PkgDir: "shape", Unwind: 60, Case: cs("h", 20, "v", 25, "span", 4, "grid", 0, "spatial", 0), Inputs: map[string]string{"a": f2s(-1.5), "b": f2s(2.25)}},
				{Harness: "VerifC06Vertical", PkgDir: "shape", Unwind: 60, Case: cs("h", 20, "v", 35, "span", 4, "grid", 20, "spatial", 0), Inputs: map[string]string{"a": f2s(10485865.5), "b": f2s(10489010.25)}},
				{Harness: "VerifC06Vertical", PkgDir: "shape", Unwind: 60, Case: cs("h", 25, "v", 25, "span", 4, "grid", 20, "spatial", 1), Inputs: map[string]string{"a": f2s(-3145728), "b": f2s(1048577)}},
				{Harness: "VerifC06SameVoxel", PkgDir: "shape", Unwind: 60, Case: cs("h", 20, "v", 25), Inputs: map[string]string{"lon0": f2s(139.75), "lat0": f2s(35.5), "alt0": f2s(10.25), "lon1": f2s(139.7500001), "lat1": f2s(35.5000001), "alt1": f2s(10.5)}},
			}
		},
	}
}
