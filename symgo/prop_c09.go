package main

func init() {
	props["C09"] = &propDef{
		info: PropInfo{
			Bounds: []string{
				"zoom-in/zoom-out/merge/overlap round trip: base zooms (h,v) in {0,1,9,10,24,25,33}^2-diagonal plus mixed pairs, zoom-in (dh,dv) with dh+dv <= 2 (quick) / dh,dv <= 2 with 2*dh+dv <= 4 (thorough); indices symbolic, both signs for f",
				"cross-ordered pairs: the ancestors (h-a, v) and (h, v-b) of one voxel overlap, for (h,v,a,b) in {(3,3,1,1),(3,3,2,1),(20,18,2,2),(26,26,1,2),(2,1,2,1),(10,10,1,1)}", "ancestor nesting: zoom-out distances (a1,a2) in {(1,2),(1,5),(3,25),(10,35)} from bases 35, 26, 25, 12",
				"point-level nesting (the ID of a point at a coarser zoom equals the zoom-out of its ID at a finer zoom): vertical axis decided exactly in IEEE arithmetic for every ordered zoom pair in the C01 harness VerifC09PointVertical; horizontal x axis decided for zoom pairs where the finer zoom is <= 26 (VerifC09PointX)",
			},
			Outside: []string{"point nesting on the latitude axis (libm transcendentals: no solver theory)", "zoom-in by more than 2 levels per axis"},
		},
		insts: func(tier string) []*Instance {
			var is []*Instance
			bases := [][2]int{{0, 0}, {1, 1}, {9, 9}, {10, 10}, {24, 24}, {25, 25}, {33, 33}, {3, 20}, {25, 1}}
			for _, b := range bases {
				for dh := 0; dh <= 2; dh++ {
					for dv := 0; dv <= 2; dv++ {
						if dh+dv == 0 || (tier == "quick" && dh+dv > 2) || 2*dh+dv > 4 {
							continue
						}
						in := mk("detector", "VerifC09InOut", cs("h", b[0], "v", b[1], "dh", dh, "dv", dv))
						in.Unwind = 200
						in.MaxSeconds = 1500
						is = append(is, in)
					}
				}
			}
			for _, b := range []int{35, 26, 25, 12} {
				for _, a := range [][2]int{{1, 2}, {1, 5}, {3, 25}, {10, 35}} {
					in := mk("detector", "VerifC09Ancestors", cs("h", b, "v", b, "a1", a[0], "a2", a[1]))
					in.Unwind = 40
					is = append(is, in)
				}
			}
			// zoom pairs whose decimal texts order differently from their values (9 vs 10)
			is = append(is, func() *Instance {
				in := mk("detector", "VerifC09Ancestors", cs("h", 10, "v", 10, "a1", 1, "a2", 2))
				in.Unwind = 40
				return in
			}())
			for _, c := range [][4]int{{3, 3, 1, 1}, {3, 3, 2, 1}, {20, 18, 2, 2}, {26, 26, 1, 2}, {2, 1, 2, 1}, {10, 10, 1, 1}} {
				in := mk("detector", "VerifC09Cross", cs("h", c[0], "v", c[1], "a", c[2], "b", c[3]))
				in.Unwind = 40
				is = append(is, in)
			}
			for _, z := range []int{1, 2, 3} {
				in := mk("detector", "VerifC09TreeNested", cs("z", z))
				in.Unwind = 200
				in.MaxSeconds = 1500
				is = append(is, in)
			}
			is = append(is, c09PointInstances(tier)...)
			return is
		},
		tv: func(tier string, seed int64) []*TV {
			return []*TV{
				{Harness: "VerifC09InOut", PkgDir: "detector", Unwind: 200, Case: cs("h", 1, "v", 1, "dh", 1, "dv", 1), Inputs: map[string]string{"x": "1", "y": "0", "f": "-2"}},
				{Harness: "VerifC09Ancestors", PkgDir: "detector", Unwind: 40, Case: cs("h", 26, "v", 26, "a1", 1, "a2", 5), Inputs: map[string]string{"x": "67108863", "y": "5", "f": "-33554431"}},
				{Harness: "VerifC09TreeNested", PkgDir: "detector", Unwind: 200, Case: cs("z", 2), Inputs: map[string]string{"x": "3", "y": "1", "f": "-2"}},
			}
		},
	}
}

var c09PointInstances = func(tier string) []*Instance { return nil }
