package main

// Character-level view of the ID-string domain: a string whose pieces are literals and numeric renderings is
// exploded into single characters (literal bytes and digit pieces) by forking on the sign and the digit count of
// every numeric rendering.  This gives len, indexing, slicing, range-over-string and ordering on such strings.
// Strings holding caller tokens or opaque text have no character-level model (unsupported => INCONCLUSIVE).

import (
	"fmt"
	"go/token"
	"unicode/utf8"
)

// chars returns the single-character pieces of s (pLit with one byte, or pDigit).
func (e *Exec) chars(s Str, what string) []Piece {
	var out []Piece
	for _, p := range s.P {
		switch p.K {
		case pLit:
			for i := 0; i < len(p.S); i++ {
				out = append(out, Piece{K: pLit, S: p.S[i : i+1]})
			}
		case pDigit:
			out = append(out, p)
		case pQuat:
			out = append(out, e.digitsOf(p.I, 4, 32)...)
		case pDec:
			v := p.I
			if e.decide(iCmp("<", v, mkI64(0))) {
				out = append(out, Piece{K: pLit, S: "-"})
				v = iNeg(v)
			}
			out = append(out, e.digitsOf(iConv(v, 64, false), 10, 20)...)
		default:
			e.unsupported("%s: no character-level model for %s", what, s)
		}
	}
	return out
}

// digitsOf forks over the digit count of the unsigned rendering of v in the given base.
func (e *Exec) digitsOf(v Int, base uint64, maxDigits int) []Piece {
	u := iConv(v, 64, false)
	nd := maxDigits
	pw := uint64(1)
	pows := []uint64{1}
	for k := 1; k < maxDigits; k++ {
		if pw > (^uint64(0))/base {
			nd = k
			break
		}
		pw *= base
		pows = append(pows, pw)
		if e.decide(iCmp("<", u, mkInt(64, false, pw))) {
			nd = k
			break
		}
	}
	if nd > len(pows) {
		nd = len(pows)
	}
	out := make([]Piece, nd)
	for j := 0; j < nd; j++ {
		var d Int
		if base == 4 {
			sh := uint64(2 * (nd - 1 - j))
			d = iBin("&", iShift(false, u, mkInt(64, false, sh)), mkInt(64, false, 3))
		} else {
			d = iBin("%", iBin("/", u, mkInt(64, false, pows[nd-1-j])), mkInt(64, false, base))
		}
		d = iConv(d, 64, true)
		if !d.IsC {
			d = e.nmI(d)
		}
		out[j] = Piece{K: pDigit, I: d}
	}
	return out
}

func charsToStr(cs []Piece) Str { return normStr(append([]Piece(nil), cs...)) }

// charCode: the byte of a single-character piece as a w-bit integer.
func charCode(p Piece, w int, signed bool) Int {
	if p.K == pLit {
		return mkInt(w, signed, uint64(p.S[0]))
	}
	return iBin("+", iConv(p.I, w, signed), mkInt(w, signed, '0'))
}

func asciiOnly(cs []Piece) bool {
	for _, p := range cs {
		if p.K == pLit && p.S[0] >= utf8.RuneSelf {
			return false
		}
	}
	return true
}

func (e *Exec) strLen(s Str) Int {
	if s.isLit() {
		return mkI64(int64(len(s.litVal())))
	}
	return mkI64(int64(len(e.chars(s, "len"))))
}

func (e *Exec) strByteAt(s Str, idx Int) Int {
	if len(s.P) == 1 && s.P[0].K == pTok && idx.IsC && idx.sval() == 0 {
		// first byte of a caller-supplied field: indexing panics exactly when the field is empty (decided by the
		// solver, replayed natively); the byte itself has no model
		e.obligation(bNot(symBool(fmt.Sprintf("tok%d_empty", s.P[0].Tok))), "index out of range [0] with length 0 (empty field)", "panic")
		e.unsupported("first byte of a symbolic field (only its existence is modelled)")
	}
	cs := e.chars(s, "string index")
	e.boundsCheck(idx, len(cs), "string index")
	if !idx.IsC {
		idx = e.concretize(idx, "string index", 64)
	}
	return charCode(cs[idx.sval()], 8, false)
}

func (e *Exec) strSlice(s Str, lo, hi int64, hasHi bool) Str {
	cs := e.chars(s, "string slicing")
	if !hasHi {
		hi = int64(len(cs))
	}
	if lo < 0 || hi < lo || hi > int64(len(cs)) {
		e.runtimePanic("slice bounds out of range (string)")
	}
	if !asciiOnly(cs) && !s.isLit() {
		e.unsupported("slicing a non-ASCII symbolic string")
	}
	return charsToStr(cs[lo:hi])
}

// strOrder decides a < b (strict=true) or a <= b lexicographically by bytes.
func (e *Exec) strOrder(a, b Str, op token.Token) Bool {
	if a.isLit() && b.isLit() {
		x, y := a.litVal(), b.litVal()
		switch op {
		case token.LSS:
			return mkBool(x < y)
		case token.LEQ:
			return mkBool(x <= y)
		case token.GTR:
			return mkBool(x > y)
		case token.GEQ:
			return mkBool(x >= y)
		}
	}
	switch op {
	case token.GTR:
		return e.strOrder(b, a, token.LSS)
	case token.GEQ:
		return e.strOrder(b, a, token.LEQ)
	}
	ca, cb := e.chars(a, "string ordering"), e.chars(b, "string ordering")
	// less(i): a[i:] < b[i:] (or <=)
	var rec func(i int) Bool
	rec = func(i int) Bool {
		switch {
		case i == len(ca) && i == len(cb):
			return mkBool(op == token.LEQ)
		case i == len(ca):
			return mkBool(true)
		case i == len(cb):
			return mkBool(false)
		}
		x, y := charCode(ca[i], 8, false), charCode(cb[i], 8, false)
		return bOr(iCmp("<", x, y), bAnd(iCmp("==", x, y), rec(i+1)))
	}
	r := rec(0)
	if !r.IsC {
		r = e.nmB(r)
	}
	return r
}

// strIter: range over a string.
type strIter struct {
	idx   []int64
	runes []Int
	i     int
}

func (e *Exec) strRange(s Str) *strIter {
	it := &strIter{}
	if s.isLit() {
		for i, r := range s.litVal() {
			it.idx = append(it.idx, int64(i))
			it.runes = append(it.runes, mkInt(32, true, uint64(uint32(r))))
		}
		return it
	}
	cs := e.chars(s, "range over string")
	if !asciiOnly(cs) {
		e.unsupported("range over a non-ASCII symbolic string")
	}
	for i, c := range cs {
		it.idx = append(it.idx, int64(i))
		it.runes = append(it.runes, charCode(c, 32, true))
	}
	return it
}
