package main

import (
	"fmt"
	"go/types"
	"sort"
	"strings"

	"golang.org/x/tools/go/ssa"
)

// C19 — all operations may be called concurrently.  Decided by a frame argument instead of
// interleaving exploration: (1) on every symbolic path of the frame-instrumented harnesses, every
// store / map update / in-place append targets memory allocated during the call; (2) a scan of the
// SSA of every repository package shows no package-level variable that is written, or that holds
// reference-typed (shareable, mutable) data, outside package initialisation.
func init() {
	props["C19"] = &propDef{
		info: PropInfo{
			Bounds: []string{
				"frame check on all symbolic paths of: zoom change (1-2 IDs), merge (1-2 IDs), neighbourhood layers, notation conversion, expansion, quadkey conversion, tile conversion, set helpers, extended overlap arrays, determinism harness — with the bounds of those harnesses",
				"static scan: every function of every package under the module path, including instantiated generics and anonymous functions",
			},
			Outside:     []string{"third-party code behind the stubs (wgs84, geodesy, closest): assumed effect-free on shared state", "setters documented to mutate their receiver (Set*, ResetExtendedSpatialID) are not 'read-only arguments'"},
			Assumptions: []string{"a data race needs two accesses to one location, one of them a write, from two calls; with no call writing memory it did not allocate and no mutable package-level state, every interleaving is race-free and each call computes its sequential result"},
		},
		insts: func(tier string) []*Instance {
			var is []*Instance
			add := func(dir, h string, c map[string]int64, unwind int) {
				in := mk(dir, h, c)
				in.Unwind = unwind
				is = append(is, in)
			}
			add("integrate", "VerifC03Change", cs("n", 1, "H", 4, "V", 4, "h0", 3, "v0", 3), 80)
			add("integrate", "VerifC03Change", cs("n", 2, "h0", 3, "v0", 3, "h1", 3, "v1", 3, "H", 2, "V", 2), 80)
			add("integrate", "VerifC04Free", cs("k", 2, "H", 1, "V", 1, "dh0", 1, "dv0", 1, "dh1", 0, "dv1", 0, "idem", 0), 300)
			add("operated", "VerifC08Layers", cs("h", 3, "H", 1, "V", 0, "n", 1), 200)
			add("shape", "VerifC10Notation", cs("n", 2), 40)
			add("transform", "VerifC10Expand", cs("h", 3, "v", 4), 100)
			add("transform", "VerifC11RoundTrip", cs("z", 3, "v", 3), 40)
			add("transform", "VerifC13Tiles", cs("n", 2, "zk", 25, "e", 25, "ov", 25, "maxrun", 3, "dz", 0), 40)
			add("common", "VerifC20Sets", cs("n1", 2, "n2", 2), 40)
			add("detector", "VerifC05ExtArray", cs("n1", 2, "n2", 1, "h", 3, "v", 2, "hm", 5, "vm", 5), 40)
			add("detector", "VerifC16Op", cs("op", 2, "h", 3, "v", 3, "mix", 0, "orders", 1), 100)
			add("detector", "VerifC16Tiles", cs("mix", 0), 100)
			return is
		},
		static: scanGlobals,
	}
}

func refTyped(t types.Type, seen map[types.Type]bool) bool {
	if seen[t] {
		return false
	}
	seen[t] = true
	switch u := t.Underlying().(type) {
	case *types.Pointer, *types.Map, *types.Slice, *types.Chan, *types.Signature, *types.Interface:
		return true
	case *types.Struct:
		for i := 0; i < u.NumFields(); i++ {
			if refTyped(u.Field(i).Type(), seen) {
				return true
			}
		}
	case *types.Array:
		return refTyped(u.Elem(), seen)
	}
	return false
}

func scanGlobals(P *Program) (viol []string, notes []string) {
	var dirs []string
	for d := range P.pkgs {
		dirs = append(dirs, d)
	}
	sort.Strings(dirs)
	nfun := 0
	for _, d := range dirs {
		pkg := P.pkgs[d]
		var globals []string
		for name, m := range pkg.Members {
			if g, ok := m.(*ssa.Global); ok && name != "init$guard" {
				et := g.Type().(*types.Pointer).Elem()
				globals = append(globals, fmt.Sprintf("%s %s", name, et))
			}
		}
		sort.Strings(globals)
		notes = append(notes, fmt.Sprintf("package %s: package-level variables: [%s]", pkg.Pkg.Path(), strings.Join(globals, ", ")))
		// all functions incl. methods and anonymous functions
		var fns []*ssa.Function
		for _, m := range pkg.Members {
			switch x := m.(type) {
			case *ssa.Function:
				fns = append(fns, x)
			case *ssa.Type:
				for _, T := range []types.Type{x.Type(), types.NewPointer(x.Type())} {
					ms := P.prog.MethodSets.MethodSet(T)
					for i := 0; i < ms.Len(); i++ {
						if f := P.prog.MethodValue(ms.At(i)); f != nil && f.Pkg == pkg {
							fns = append(fns, f)
						}
					}
				}
			}
		}
		seenFn := map[*ssa.Function]bool{}
		var visit func(f *ssa.Function)
		visit = func(f *ssa.Function) {
			if f == nil || seenFn[f] || len(f.Blocks) == 0 {
				return
			}
			seenFn[f] = true
			if strings.HasPrefix(f.Name(), "Verif") || (strings.HasPrefix(f.Name(), "v") && strings.Contains(P.prog.Fset.Position(f.Pos()).Filename, "zz_verif_")) {
				return // harness code is not part of the library
			}
			nfun++
			isInit := f.Name() == "init" || strings.HasPrefix(f.Name(), "init#")
			for _, b := range f.Blocks {
				for _, ins := range b.Instrs {
					for _, op := range ins.Operands(nil) {
						g, ok := (*op).(*ssa.Global)
						if !ok || g.Pkg == nil || !strings.HasPrefix(g.Pkg.Pkg.Path(), repoMod) || isInit {
							continue
						}
						pos := P.prog.Fset.Position(ins.Pos())
						if st, isStore := ins.(*ssa.Store); isStore && st.Addr == g {
							viol = append(viol, fmt.Sprintf("package-level variable %s.%s is written outside initialisation in %s (%s)", g.Pkg.Pkg.Name(), g.Name(), f.String(), pos))
							continue
						}
						if _, isLoad := ins.(*ssa.UnOp); isLoad {
							if refTyped(g.Type().(*types.Pointer).Elem(), map[types.Type]bool{}) {
								viol = append(viol, fmt.Sprintf("package-level variable %s.%s holds reference-typed (shareable, mutable) data and is used by %s (%s)", g.Pkg.Pkg.Name(), g.Name(), f.String(), pos))
							}
							continue
						}
						// address of the global escapes into an instruction other than a plain load
						viol = append(viol, fmt.Sprintf("address of package-level variable %s.%s is taken in %s (%s): it may be written through it", g.Pkg.Pkg.Name(), g.Name(), f.String(), pos))
					}
				}
			}
			for _, af := range f.AnonFuncs {
				visit(af)
			}
		}
		for _, f := range fns {
			visit(f)
		}
	}
	notes = append(notes, fmt.Sprintf("functions scanned: %d", nfun))
	return viol, notes
}
