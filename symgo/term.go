package main

// Values and SMT term construction with constant folding.
//
// Every scalar is either concrete (IsC) or an SMT-LIB2 term (Sym).  Integers are
// bit-vectors of the Go width with wrap-around semantics; floats are
// FloatingPoint(11,53) with RNE; booleans are Bool.

import (
	"fmt"
	"math"
	"math/big"
	"strings"
)

type Value interface{}

type Int struct {
	W      int
	Signed bool
	IsC    bool
	C      uint64 // masked to W bits
	Sym    string
	Off    uint64 // symbolic value is Sym + Off (mod 2^W): keeps "base + constant" recognisable
	RI     string // relaxed float mode: an SMT Int term equal to the (signed) value, when known
}

type Bool struct {
	IsC bool
	C   bool
	Sym string
}

type Float struct {
	IsC bool
	C   float64
	Sym string
	// provenance (exact facts about the value, used to keep integer code in BV)
	FromInt *Int // value == float64(FromInt) (conversion of that int64)
	Pow2Of  *Int // value == 2^Pow2Of exactly (validity checked at creation)
	// relaxed mode: a concrete enclosure Lo <= value <= Hi, when known; lets the rounding error of
	// an operation be modelled as an absolute (linear) term instead of a relative (non-linear) one
	HasIv  bool
	Lo, Hi float64
	IntR   string // relaxed mode: an SMT Int term k such that the value is exactly k * 2^Scale
	Scale  int
}

// Wide is a ghost mathematical integer (192-bit two's complement symbolically).
type Wide struct {
	IsC bool
	C   *big.Int
	Sym string
	// Bits: |value| < 2^Bits is known structurally (0 = unknown); lets the executor skip
	// the solver for ghost no-overflow obligations that interval reasoning already settles.
	Bits int
}

const wideW = 128

func mask(w int) uint64 {
	if w >= 64 {
		return ^uint64(0)
	}
	return (uint64(1) << uint(w)) - 1
}

func mkInt(w int, signed bool, c uint64) Int {
	return Int{W: w, Signed: signed, IsC: true, C: c & mask(w)}
}

func mkI64(c int64) Int { return mkInt(64, true, uint64(c)) }

func symInt(w int, signed bool, s string) Int {
	return Int{W: w, Signed: signed, Sym: s}
}

func (i Int) sval() int64 { // signed interpretation of concrete
	if i.W >= 64 {
		return int64(i.C)
	}
	if i.C&(uint64(1)<<uint(i.W-1)) != 0 {
		return int64(i.C | ^mask(i.W))
	}
	return int64(i.C)
}

func bvLit(w int, c uint64) string {
	c &= mask(w)
	if w%4 == 0 {
		return fmt.Sprintf("#x%0*x", w/4, c)
	}
	return fmt.Sprintf("#b%0*b", w, c)
}

func (i Int) T() string {
	if i.IsC {
		return bvLit(i.W, i.C)
	}
	if i.Off&mask(i.W) != 0 {
		return "(bvadd " + i.Sym + " " + bvLit(i.W, i.Off) + ")"
	}
	return i.Sym
}

func mkBool(c bool) Bool    { return Bool{IsC: true, C: c} }
func symBool(s string) Bool { return Bool{Sym: s} }
func (b Bool) T() string {
	if b.IsC {
		if b.C {
			return "true"
		}
		return "false"
	}
	return b.Sym
}

func mkFloat(c float64) Float { return Float{IsC: true, C: c} }

func fpLit(c float64) string {
	b := math.Float64bits(c)
	return fmt.Sprintf("(fp #b%d #b%011b #x%013x)", b>>63, (b>>52)&0x7ff, b&((1<<52)-1))
}

func (f Float) T() string {
	if f.IsC {
		return fpLit(f.C)
	}
	return f.Sym
}

// ---------- boolean ops

func bNot(a Bool) Bool {
	if a.IsC {
		return mkBool(!a.C)
	}
	if strings.HasPrefix(a.Sym, "(not ") && balancedTail(a.Sym[5:len(a.Sym)-1]) {
		return symBool(a.Sym[5 : len(a.Sym)-1])
	}
	return symBool("(not " + a.Sym + ")")
}

func balancedTail(s string) bool {
	d := 0
	for i, c := range s {
		switch c {
		case '(':
			d++
		case ')':
			d--
			if d < 0 {
				return false
			}
			if d == 0 && i != len(s)-1 {
				return false
			}
		case ' ':
			if d == 0 {
				return false
			}
		}
	}
	return d == 0
}

func bAnd(a, b Bool) Bool {
	if a.IsC {
		if a.C {
			return b
		}
		return a
	}
	if b.IsC {
		if b.C {
			return a
		}
		return b
	}
	if a.Sym == "(not "+b.Sym+")" || b.Sym == "(not "+a.Sym+")" {
		return mkBool(false)
	}
	if a.Sym == b.Sym {
		return a
	}
	return symBool("(and " + a.Sym + " " + b.Sym + ")")
}

func bOr(a, b Bool) Bool {
	if a.IsC {
		if a.C {
			return a
		}
		return b
	}
	if b.IsC {
		if b.C {
			return b
		}
		return a
	}
	if a.Sym == "(not "+b.Sym+")" || b.Sym == "(not "+a.Sym+")" {
		return mkBool(true)
	}
	if a.Sym == b.Sym {
		return a
	}
	return symBool("(or " + a.Sym + " " + b.Sym + ")")
}

func bEq(a, b Bool) Bool {
	if a.IsC && b.IsC {
		return mkBool(a.C == b.C)
	}
	if a.IsC {
		if a.C {
			return b
		}
		return bNot(b)
	}
	if b.IsC {
		if b.C {
			return a
		}
		return bNot(a)
	}
	return symBool("(= " + a.Sym + " " + b.Sym + ")")
}

func bIte(c, a, b Bool) Bool {
	if c.IsC {
		if c.C {
			return a
		}
		return b
	}
	if a.IsC && b.IsC {
		if a.C == b.C {
			return a
		}
		if a.C {
			return c
		}
		return bNot(c)
	}
	return symBool("(ite " + c.Sym + " " + a.T() + " " + b.T() + ")")
}

// ---------- integer ops

func iIte(c Bool, a, b Int) Int {
	if c.IsC {
		if c.C {
			return a
		}
		return b
	}
	if a.IsC && b.IsC && a.C == b.C {
		return a
	}
	if !a.IsC && !b.IsC && a.Sym == b.Sym && a.Off&mask(a.W) == b.Off&mask(b.W) {
		return a
	}
	return symInt(a.W, a.Signed, "(ite "+c.Sym+" "+a.T()+" "+b.T()+")")
}

func fIte(c Bool, a, b Float) Float {
	if c.IsC {
		if c.C {
			return a
		}
		return b
	}
	if a.IsC && b.IsC && math.Float64bits(a.C) == math.Float64bits(b.C) {
		return a
	}
	if !a.IsC && !b.IsC && a.Sym == b.Sym {
		return a
	}
	return Float{Sym: "(ite " + c.Sym + " " + a.T() + " " + b.T() + ")"}
}

// iBin implements Go binary arithmetic on equal-width ints (shifts separately).
func iBin(op string, a, b Int) Int {
	w, sg := a.W, a.Signed
	if a.IsC && b.IsC {
		x, y := a.C, b.C
		var r uint64
		switch op {
		case "+":
			r = x + y
		case "-":
			r = x - y
		case "*":
			r = x * y
		case "&":
			r = x & y
		case "|":
			r = x | y
		case "^":
			r = x ^ y
		case "&^":
			r = x &^ y
		case "/":
			if sg {
				sx, sy := a.sval(), b.sval()
				if sy == -1 {
					r = uint64(-sx)
				} else {
					r = uint64(sx / sy)
				}
			} else {
				r = x / y
			}
		case "%":
			if sg {
				sx, sy := a.sval(), b.sval()
				if sy == -1 {
					r = 0
				} else {
					r = uint64(sx % sy)
				}
			} else {
				r = x % y
			}
		default:
			panic("iBin op " + op)
		}
		return mkInt(w, sg, r)
	}
	// algebraic identities that keep terms small
	switch op {
	case "+":
		if a.IsC {
			r := b
			r.Off = (b.Off + a.C) & mask(w)
			r.W, r.Signed = w, sg
			return r
		}
		if b.IsC {
			r := a
			r.Off = (a.Off + b.C) & mask(w)
			return r
		}
		return Int{W: w, Signed: sg, Sym: "(bvadd " + a.Sym + " " + b.Sym + ")", Off: (a.Off + b.Off) & mask(w)}
	case "-":
		if b.IsC {
			r := a
			r.Off = (a.Off - b.C) & mask(w)
			return r
		}
		if !a.IsC {
			if a.Sym == b.Sym {
				return mkInt(w, sg, a.Off-b.Off)
			}
			return Int{W: w, Signed: sg, Sym: "(bvsub " + a.Sym + " " + b.Sym + ")", Off: (a.Off - b.Off) & mask(w)}
		}
	case "*":
		if a.IsC && a.C == 1 {
			return b
		}
		if b.IsC && b.C == 1 {
			return a
		}
		if (a.IsC && a.C == 0) || (b.IsC && b.C == 0) {
			return mkInt(w, sg, 0)
		}
	case "/":
		if b.IsC && b.C == 1 {
			return a
		}
	}
	// strength reduction: division / remainder by a constant power of two (division circuits
	// stall bit-blasting; shifts do not).  Go semantics: truncation toward zero for signed.
	if (op == "/" || op == "%") && b.IsC && b.C != 0 && b.C&(b.C-1) == 0 && !(sg && b.sval() < 0) {
		k := uint64(0)
		for (uint64(1) << k) != b.C {
			k++
		}
		var q Int
		if !sg {
			q = iShift(false, a, mkInt(w, false, k))
		} else {
			// (a + ((a >>s (w-1)) & (2^k-1))) >>s k
			sign := iShift(false, a, mkInt(w, false, uint64(w-1)))
			bias := iBin("&", sign, mkInt(w, sg, b.C-1))
			q = iShift(false, iBin("+", a, bias), mkInt(w, false, k))
		}
		if op == "/" {
			return q
		}
		return iBin("-", a, iShift(true, q, mkInt(w, false, k)))
	}
	var f string
	switch op {
	case "+":
		f = "bvadd"
	case "-":
		f = "bvsub"
	case "*":
		f = "bvmul"
	case "&":
		f = "bvand"
	case "|":
		f = "bvor"
	case "^":
		f = "bvxor"
	case "&^":
		return symInt(w, sg, "(bvand "+a.T()+" (bvnot "+b.T()+"))")
	case "/":
		if sg {
			f = "bvsdiv"
		} else {
			f = "bvudiv"
		}
	case "%":
		if sg {
			f = "bvsrem"
		} else {
			f = "bvurem"
		}
	default:
		panic("iBin op " + op)
	}
	return symInt(w, sg, "("+f+" "+a.T()+" "+b.T()+")")
}

func iNeg(a Int) Int {
	if a.IsC {
		return mkInt(a.W, a.Signed, -a.C)
	}
	return symInt(a.W, a.Signed, "(bvneg "+a.T()+")")
}

func iNot(a Int) Int {
	if a.IsC {
		return mkInt(a.W, a.Signed, ^a.C)
	}
	return symInt(a.W, a.Signed, "(bvnot "+a.T()+")")
}

// iConv converts to another integer type.
func iConv(a Int, w int, signed bool) Int {
	if a.IsC {
		if w > a.W && a.Signed {
			return mkInt(w, signed, uint64(a.sval()))
		}
		return mkInt(w, signed, a.C)
	}
	if w == a.W {
		r := Int{W: w, Signed: signed, Sym: a.Sym, Off: a.Off}
		if signed == a.Signed {
			r.RI = a.RI
		}
		return r
	}
	if w < a.W {
		return Int{W: w, Signed: signed, Sym: fmt.Sprintf("((_ extract %d 0) %s)", w-1, a.Sym), Off: a.Off & mask(w)}
	}
	if a.Signed {
		return symInt(w, signed, fmt.Sprintf("((_ sign_extend %d) %s)", w-a.W, a.T()))
	}
	return symInt(w, signed, fmt.Sprintf("((_ zero_extend %d) %s)", w-a.W, a.T()))
}

// iShift: a << n or a >> n where n already has the unsigned magnitude semantics
// (negative signed counts are a panic obligation checked by the caller).
func iShift(left bool, a, n Int) Int {
	w := a.W
	if n.IsC {
		cnt := n.C
		if n.Signed && n.sval() < 0 {
			cnt = 64 // caller raises the panic; value irrelevant
		}
		if a.IsC {
			var r uint64
			if left {
				if cnt >= uint64(w) {
					r = 0
				} else {
					r = a.C << cnt
				}
			} else if a.Signed {
				if cnt >= uint64(w) {
					cnt = uint64(w - 1)
				}
				r = uint64(a.sval() >> cnt)
			} else {
				if cnt >= uint64(w) {
					r = 0
				} else {
					r = a.C >> cnt
				}
			}
			return mkInt(w, a.Signed, r)
		}
		if cnt == 0 {
			return a
		}
		if cnt >= uint64(w) {
			cnt = uint64(w)
		}
		f := "bvshl"
		if !left {
			if a.Signed {
				f = "bvashr"
			} else {
				f = "bvlshr"
			}
		}
		return symInt(w, a.Signed, "("+f+" "+a.T()+" "+bvLit(w, cnt)+")")
	}
	// symbolic count: bring to width w with saturation
	var cnt string
	switch {
	case n.W == w:
		cnt = n.T()
	case n.W < w:
		cnt = fmt.Sprintf("((_ zero_extend %d) %s)", w-n.W, n.T())
	default:
		cnt = fmt.Sprintf("(ite (bvuge %s %s) %s ((_ extract %d 0) %s))", n.T(), bvLit(n.W, uint64(w)), bvLit(w, uint64(w)), w-1, n.T())
	}
	f := "bvshl"
	if !left {
		if a.Signed {
			f = "bvashr"
		} else {
			f = "bvlshr"
		}
	}
	return symInt(w, a.Signed, "("+f+" "+a.T()+" "+cnt+")")
}

func iCmp(op string, a, b Int) Bool {
	if a.IsC && b.IsC {
		var r bool
		if a.Signed {
			x, y := a.sval(), b.sval()
			switch op {
			case "==":
				r = x == y
			case "!=":
				r = x != y
			case "<":
				r = x < y
			case "<=":
				r = x <= y
			case ">":
				r = x > y
			case ">=":
				r = x >= y
			}
		} else {
			x, y := a.C, b.C
			switch op {
			case "==":
				r = x == y
			case "!=":
				r = x != y
			case "<":
				r = x < y
			case "<=":
				r = x <= y
			case ">":
				r = x > y
			case ">=":
				r = x >= y
			}
		}
		return mkBool(r)
	}
	if !a.IsC && !b.IsC && a.Sym == b.Sym {
		same := a.Off&mask(a.W) == b.Off&mask(b.W)
		switch op {
		case "==":
			return mkBool(same)
		case "!=":
			return mkBool(!same)
		case "<=", ">=":
			if same {
				return mkBool(true)
			}
		default:
			if same {
				return mkBool(false)
			}
		}
	}
	// relaxed float mode: values with an SMT Int twin are compared in the Int domain (keeps
	// bit-vectors out of the real-arithmetic queries)
	// RI is the Int twin of the BASE term Sym (the constant offset Off is not included).  Equality of two 64-bit values
	// base+off (mod 2^64) whose bases lie in [-2^63, 2^63): x - y is d, d - 2^64 or d + 2^64 for d = offB - offA.
	if a.Signed && a.W == 64 && b.W == 64 && (op == "==" || op == "!=") && a.RI != "" && (b.RI != "" || b.IsC) && (a.Off != 0 || (!b.IsC && b.Off != 0)) {
		x := a.RI
		var y string
		var d int64
		if b.IsC {
			y = "0"
			d = int64(b.C - a.Off)
		} else {
			y = b.RI
			d = int64(b.Off - a.Off)
		}
		lit := func(v *big.Int) string {
			if v.Sign() < 0 {
				return "(- " + new(big.Int).Neg(v).String() + ")"
			}
			return v.String()
		}
		two64 := new(big.Int).Lsh(big.NewInt(1), 64)
		dd := big.NewInt(d)
		diff := "(- " + x + " " + y + ")"
		eq := "(or (= " + diff + " " + lit(dd) + ") (= " + diff + " " + lit(new(big.Int).Sub(dd, two64)) + ") (= " + diff + " " + lit(new(big.Int).Add(dd, two64)) + "))"
		if op == "!=" {
			return symBool("(not " + eq + ")")
		}
		return symBool(eq)
	}
	// ordering of two 64-bit values with Int twins and constant offsets: exact two's-complement wrap in the Int domain
	if a.Signed && a.W == 64 && b.W == 64 && (op == "<" || op == "<=" || op == ">" || op == ">=") && (a.RI != "" || a.IsC) && (b.RI != "" || b.IsC) && !(a.IsC && b.IsC) && ((!a.IsC && a.Off != 0) || (!b.IsC && b.Off != 0)) {
		wrapped := func(v Int) string {
			if v.IsC {
				if v.sval() < 0 {
					return fmt.Sprintf("(- %d)", -v.sval())
				}
				return fmt.Sprint(v.sval())
			}
			if v.Off == 0 {
				return v.RI
			}
			off := int64(v.Off)
			var o string
			if off < 0 {
				o = "(- " + new(big.Int).Neg(big.NewInt(off)).String() + ")"
			} else {
				o = fmt.Sprint(off)
			}
			return "(- (mod (+ " + v.RI + " " + o + " 9223372036854775808) 18446744073709551616) 9223372036854775808)"
		}
		return symBool("(" + op + " " + wrapped(a) + " " + wrapped(b) + ")")
	}
	if a.Signed && (a.RI != "" || a.IsC) && (b.RI != "" || b.IsC) && a.Off == 0 && b.Off == 0 {
		ri := func(v Int) string {
			if v.IsC {
				if v.sval() < 0 {
					return fmt.Sprintf("(- %d)", -v.sval())
				}
				return fmt.Sprint(v.sval())
			}
			return v.RI
		}
		x, y := ri(a), ri(b)
		switch op {
		case "==":
			return symBool("(= " + x + " " + y + ")")
		case "!=":
			return symBool("(not (= " + x + " " + y + "))")
		case "<", "<=", ">", ">=":
			return symBool("(" + op + " " + x + " " + y + ")")
		}
	}
	x, y := a.T(), b.T()
	s := "s"
	if !a.Signed {
		s = "u"
	}
	switch op {
	case "==":
		return symBool("(= " + x + " " + y + ")")
	case "!=":
		return symBool("(not (= " + x + " " + y + "))")
	case "<":
		return symBool("(bv" + s + "lt " + x + " " + y + ")")
	case "<=":
		return symBool("(bv" + s + "le " + x + " " + y + ")")
	case ">":
		return symBool("(bv" + s + "gt " + x + " " + y + ")")
	case ">=":
		return symBool("(bv" + s + "ge " + x + " " + y + ")")
	}
	panic("iCmp " + op)
}

// ---------- float ops

func fBin(op string, a, b Float) Float {
	if a.IsC && b.IsC {
		switch op {
		case "+":
			return mkFloat(a.C + b.C)
		case "-":
			return mkFloat(a.C - b.C)
		case "*":
			return mkFloat(a.C * b.C)
		case "/":
			return mkFloat(a.C / b.C)
		}
	}
	var f string
	switch op {
	case "+":
		f = "fp.add"
	case "-":
		f = "fp.sub"
	case "*":
		f = "fp.mul"
	case "/":
		f = "fp.div"
	default:
		panic("fBin " + op)
	}
	return Float{Sym: "(" + f + " RNE " + a.T() + " " + b.T() + ")"}
}

func fCmp(op string, a, b Float) Bool {
	if a.IsC && b.IsC {
		switch op {
		case "==":
			return mkBool(a.C == b.C)
		case "!=":
			return mkBool(a.C != b.C)
		case "<":
			return mkBool(a.C < b.C)
		case "<=":
			return mkBool(a.C <= b.C)
		case ">":
			return mkBool(a.C > b.C)
		case ">=":
			return mkBool(a.C >= b.C)
		}
	}
	x, y := a.T(), b.T()
	switch op {
	case "==":
		return symBool("(fp.eq " + x + " " + y + ")")
	case "!=":
		return symBool("(not (fp.eq " + x + " " + y + "))")
	case "<":
		return symBool("(fp.lt " + x + " " + y + ")")
	case "<=":
		return symBool("(fp.leq " + x + " " + y + ")")
	case ">":
		return symBool("(fp.gt " + x + " " + y + ")")
	case ">=":
		return symBool("(fp.geq " + x + " " + y + ")")
	}
	panic("fCmp " + op)
}

func fNeg(a Float) Float {
	if a.IsC {
		return mkFloat(-a.C)
	}
	return Float{Sym: "(fp.neg " + a.Sym + ")"}
}

func fUn(name string, a Float) Float {
	if a.IsC {
		switch name {
		case "abs":
			return mkFloat(math.Abs(a.C))
		case "floor":
			return mkFloat(math.Floor(a.C))
		case "ceil":
			return mkFloat(math.Ceil(a.C))
		case "sqrt":
			return mkFloat(math.Sqrt(a.C))
		case "trunc":
			return mkFloat(math.Trunc(a.C))
		case "round":
			return mkFloat(math.Round(a.C))
		}
	}
	switch name {
	case "abs":
		return Float{Sym: "(fp.abs " + a.Sym + ")"}
	case "floor":
		return Float{Sym: "(fp.roundToIntegral RTN " + a.Sym + ")"}
	case "ceil":
		return Float{Sym: "(fp.roundToIntegral RTP " + a.Sym + ")"}
	case "sqrt":
		return Float{Sym: "(fp.sqrt RNE " + a.Sym + ")"}
	case "trunc":
		return Float{Sym: "(fp.roundToIntegral RTZ " + a.Sym + ")"}
	case "round":
		return Float{Sym: "(fp.roundToIntegral RNA " + a.Sym + ")"}
	}
	panic("fUn " + name)
}

// int -> float64
func iToF(a Int) Float {
	if a.IsC {
		if a.Signed {
			return Float{IsC: true, C: float64(a.sval())}
		}
		return Float{IsC: true, C: float64(a.C)}
	}
	cp := a
	if a.Signed {
		return Float{Sym: "((_ to_fp 11 53) RNE " + a.T() + ")", FromInt: &cp}
	}
	return Float{Sym: "((_ to_fp_unsigned 11 53) RNE " + a.T() + ")", FromInt: &cp}
}

// float64 -> signed/unsigned int of width w, amd64 semantics for int64.
func fToI(a Float, w int, signed bool) Int {
	if a.IsC {
		if w == 64 && signed {
			return mkInt(64, true, uint64(cvttsd2si(a.C)))
		}
		if signed {
			return mkInt(w, signed, uint64(cvttsd2si(a.C)))
		}
		// unsigned: Go on amd64 for uint64 uses a two-step sequence; model the in-range case
		if a.C >= 0 && a.C < 18446744073709551616.0 {
			return mkInt(w, signed, uint64(a.C))
		}
		return mkInt(w, signed, uint64(cvttsd2si(a.C)))
	}
	if signed {
		lo := fpLit(-9223372036854775808.0)
		hi := fpLit(9223372036854775808.0)
		t := fmt.Sprintf("(ite (and (fp.leq %s %s) (fp.lt %s %s)) ((_ fp.to_sbv 64) RTZ %s) #x8000000000000000)", lo, a.Sym, a.Sym, hi, a.Sym)
		r := symInt(64, true, t)
		if w != 64 {
			return iConv(r, w, signed)
		}
		return r
	}
	t := fmt.Sprintf("((_ fp.to_ubv 64) RTZ %s)", a.Sym)
	r := symInt(64, false, t)
	if w != 64 {
		return iConv(r, w, signed)
	}
	return r
}

func cvttsd2si(f float64) int64 {
	if f != f || f >= 9223372036854775808.0 || f < -9223372036854775808.0 {
		return math.MinInt64
	}
	return int64(f)
}

// ---------- wide ghost ints

func mkWide(c *big.Int) Wide { return Wide{IsC: true, C: new(big.Int).Set(c), Bits: c.BitLen() + 1} }

func wideLit(c *big.Int) string {
	m := new(big.Int).Lsh(big.NewInt(1), wideW)
	v := new(big.Int).Mod(c, m)
	return fmt.Sprintf("#x%0*s", wideW/4, v.Text(16))
}

func (w Wide) T() string {
	if w.IsC {
		return wideLit(w.C)
	}
	return w.Sym
}

func wideFromInt(a Int) Wide {
	if a.IsC {
		if a.Signed {
			return mkWide(big.NewInt(a.sval()))
		}
		return mkWide(new(big.Int).SetUint64(a.C))
	}
	if a.Signed {
		return Wide{Sym: fmt.Sprintf("((_ sign_extend %d) %s)", wideW-a.W, a.T()), Bits: a.W}
	}
	return Wide{Sym: fmt.Sprintf("((_ zero_extend %d) %s)", wideW-a.W, a.T()), Bits: a.W + 1}
}

// riFull: an SMT Int term for the whole signed 64-bit value (base twin plus constant offset, wrapped), or "".
func riFull(v Int) string {
	if v.IsC || v.RI == "" || !v.Signed || v.W != 64 {
		return ""
	}
	if v.Off == 0 {
		return v.RI
	}
	off := int64(v.Off)
	var o string
	if off < 0 {
		o = "(- " + new(big.Int).Neg(big.NewInt(off)).String() + ")"
	} else {
		o = fmt.Sprint(off)
	}
	return "(- (mod (+ " + v.RI + " " + o + " 9223372036854775808) 18446744073709551616) 9223372036854775808)"
}
