package main

import (
	"encoding/json"
	"flag"
	"fmt"
	"os"
	"path/filepath"
	"sort"
	"strconv"
	"strings"
	"time"
)

var caseFilter *string

type KnownFinding struct {
	ID       string            `json:"id"`
	Property string            `json:"property"`
	Status   string            `json:"status"` // open
	Harness  string            `json:"harness"`
	Pkg      string            `json:"pkg"`
	Case     map[string]int64  `json:"case"`
	Inputs   map[string]string `json:"inputs"`
	Label    string            `json:"label"`
	What     string            `json:"what"`
}

type KnownFile struct {
	Findings []KnownFinding `json:"findings"`
	Fixed    []string       `json:"fixed"`
}

func loadKnown() KnownFile {
	var kf KnownFile
	data, err := os.ReadFile(filepath.Join(verifDir, "known_findings.json"))
	if err == nil {
		json.Unmarshal(data, &kf)
	}
	return kf
}

func main() {
	if len(os.Args) < 2 {
		fmt.Fprintln(os.Stderr, "usage: symgo check <PROP> [-tier quick|thorough] | replay <file> | list")
		os.Exit(2)
	}
	if v := os.Getenv("VERIF_DIR"); v != "" {
		verifDir = v
	}
	switch os.Args[1] {
	case "check":
		fs := flag.NewFlagSet("check", flag.ExitOnError)
		tier := fs.String("tier", "quick", "quick|thorough")
		jobs := fs.Int("jobs", 16, "parallel workers")
		only := fs.String("only", "", "run only harnesses whose name contains this")
		caseFilter = fs.String("case", "", "run only instances whose case string contains this")
		verbose := fs.Bool("v", false, "verbose")
		noEvidence := fs.Bool("no-evidence", false, "do not write the evidence file")
		prop := os.Args[2]
		fs.Parse(os.Args[3:])
		if t := os.Getenv("VERIF_TIER"); t == "quick" || t == "thorough" {
			if !isFlagSet(fs, "tier") {
				*tier = t
			}
		}
		// evidence is only ever written from a run against /repo itself
		os.Exit(runCheck(prop, *tier, *jobs, *only, *verbose, !*noEvidence && repoDir == "/repo"))
	case "replay":
		os.Exit(runReplay(os.Args[2]))
	case "ssa":
		P, err := loadProgram()
		if err != nil {
			fmt.Fprintln(os.Stderr, err)
			os.Exit(2)
		}
		fn := P.pkgs[os.Args[2]].Func(os.Args[3])
		fn.WriteTo(os.Stdout)
	case "list":
		for _, p := range allProps() {
			fmt.Println(p)
		}
	default:
		fmt.Fprintln(os.Stderr, "unknown command")
		os.Exit(2)
	}
}

func isFlagSet(fs *flag.FlagSet, name string) bool {
	set := false
	fs.Visit(func(f *flag.Flag) {
		if f.Name == name {
			set = true
		}
	})
	return set
}

type replayFile struct {
	Property string    `json:"property"`
	Pkg      string    `json:"pkg"`
	Label    string    `json:"label"`
	Kind     string    `json:"kind"`
	Rec      ReplayRec `json:"record"`
	Note     string    `json:"note"`
}

func runReplay(path string) int {
	data, err := os.ReadFile(path)
	if err != nil {
		fmt.Fprintln(os.Stderr, err)
		return 2
	}
	var rf replayFile
	if err := json.Unmarshal(data, &rf); err != nil {
		fmt.Fprintln(os.Stderr, err)
		return 2
	}
	P, err := loadProgram()
	if err != nil {
		fmt.Fprintln(os.Stderr, err)
		return 2
	}
	rf.Rec.Tag = "r0"
	outs, err := P.nativeReplay(rf.Pkg, []ReplayRec{rf.Rec})
	if err != nil {
		fmt.Fprintln(os.Stderr, err)
		return 2
	}
	o := outs["r0"]
	fmt.Printf("harness=%s case=%v inputs=%v\n", rf.Rec.Harness, rf.Rec.Case, rf.Rec.Inputs)
	fmt.Printf("expected failure: [%s] %s\n", rf.Kind, rf.Label)
	fmt.Printf("native run: fails=%v panic=%q assume-failed=%v\n", o.Fails, o.Panic, o.Assume)
	if reproduces(rf.Kind, rf.Label, o) {
		fmt.Printf("VIOLATION property=%s replay=%s\n", rf.Property, path)
		return 1
	}
	fmt.Println("does not reproduce on the current tree")
	return 0
}

func reproduces(kind, label string, o *ReplayOut) bool {
	if o == nil || !o.Ran {
		return false
	}
	switch kind {
	case "panic":
		return o.Panic != ""
	case "assert":
		for _, f := range o.Fails {
			if f == label {
				return true
			}
		}
		return false
	}
	return false
}

func runCheck(prop, tier string, jobs int, only string, verbose, writeEvidence bool) int {
	t0 := time.Now()
	seed := int64(0)
	if s := os.Getenv("VERIF_SEED"); s != "" {
		seed, _ = strconv.ParseInt(s, 10, 64)
	}
	fail := func(msg string) int {
		fmt.Printf("INCONCLUSIVE property=%s %s\n", prop, msg)
		return 3
	}
	if err := selfTest(); err != nil {
		return fail("stub conformance self-test failed: " + err.Error())
	}
	P, err := loadProgram()
	if err != nil {
		return fail("cannot load /repo with the harness overlay: " + err.Error())
	}
	kf := loadKnown()
	var active []string
	for _, k := range kf.Findings {
		if k.Property == prop && k.Status == "open" {
			active = append(active, k.ID)
		}
	}
	insts := instancesFor(prop, tier)
	if insts == nil {
		return fail("no checks defined for this property")
	}
	var sel []*Instance
	for _, in := range insts {
		if only != "" && !strings.Contains(in.Harness, only) {
			continue
		}
		if caseFilter != nil && *caseFilter != "" && !strings.Contains(","+caseString(in.Case)+",", ","+*caseFilter+",") {
			continue
		}
		in.Known = active
		sel = append(sel, in)
	}
	results := P.runAll(sel, jobs, verbose)

	// ----- collect
	exit := 0
	var inconclusive []string
	type vrec struct {
		v   Violation
		dir string
		tag string
	}
	var viols []vrec
	byDir := map[string][]ReplayRec{}
	for _, r := range results {
		if r.Err != "" {
			inconclusive = append(inconclusive, r.Inst.Harness+": "+r.Err)
		}
		for _, m := range r.Stats.Inconclusive {
			inconclusive = append(inconclusive, fmt.Sprintf("%s[%s]: %s", r.Inst.Harness, caseString(r.Inst.Case), m))
		}
		if r.Stats.Reached["end"] == 0 && r.Err == "" {
			inconclusive = append(inconclusive, fmt.Sprintf("%s[%s]: vacuous — no path reaches the end of the harness (ended=%v)", r.Inst.Harness, caseString(r.Inst.Case), r.Stats.Ended))
		}
		// keep at most 3 violations per (instance,label) for replay
		seen := map[string]int{}
		for _, v := range r.Stats.Violations {
			seen[v.Kind+v.Label]++
			if seen[v.Kind+v.Label] > 2 {
				continue
			}
			tag := fmt.Sprintf("v%d", len(viols))
			viols = append(viols, vrec{v, r.Inst.PkgDir, tag})
			byDir[r.Inst.PkgDir] = append(byDir[r.Inst.PkgDir], ReplayRec{Harness: v.Harness, Case: v.Case, Inputs: v.Inputs, Known: active, Tag: tag})
		}
	}
	// ----- known findings: replay pinned witnesses with the region disabled
	type krec struct {
		k   KnownFinding
		tag string
	}
	var knowns []krec
	for i, k := range kf.Findings {
		if k.Property != prop || k.Status != "open" {
			continue
		}
		tag := fmt.Sprintf("k%d", i)
		knowns = append(knowns, krec{k, tag})
		byDir[k.Pkg] = append(byDir[k.Pkg], ReplayRec{Harness: k.Harness, Case: k.Case, Inputs: k.Inputs, Known: nil, Tag: tag})
	}
	// ----- translator validation vectors (concrete interpreter vs native)
	tvals := tvVectors(prop, tier, seed)
	for i, tv := range tvals {
		tv.Tag = fmt.Sprintf("t%d", i)
		byDir[tv.PkgDir] = append(byDir[tv.PkgDir], ReplayRec{Harness: tv.Harness, Case: tv.Case, Inputs: tv.Inputs, Known: active, Tag: tv.Tag})
	}
	outs := map[string]*ReplayOut{}
	dirs := make([]string, 0, len(byDir))
	for d := range byDir {
		dirs = append(dirs, d)
	}
	sort.Strings(dirs)
	for _, d := range dirs {
		o, err := P.nativeReplay(d, byDir[d])
		if err != nil {
			inconclusive = append(inconclusive, "native replay failed: "+err.Error())
			continue
		}
		for k, v := range o {
			outs[k] = v
		}
	}
	replays := 0
	nviol := 0
	os.MkdirAll(filepath.Join(verifDir, "replays", prop), 0o755)
	reported := map[string]bool{}
	for _, vr := range viols {
		o := outs[vr.tag]
		replays++
		kind := vr.v.Kind
		ok := false
		switch kind {
		case "assert", "panic":
			ok = reproduces(kind, vr.v.Label, o)
		case "frame", "ghost":
			// not observable natively: frame violations are reported from the symbolic run
			// (the write is a concrete event on a feasible path); ghost overflow is a harness bug
			ok = kind == "frame"
		}
		if kind == "ghost" {
			inconclusive = append(inconclusive, fmt.Sprintf("%s: ghost arithmetic overflow (%s) — harness oracle out of its range", vr.v.Harness, vr.v.Label))
			continue
		}
		if !ok {
			inconclusive = append(inconclusive, fmt.Sprintf("%s[%s]: solver model for [%s] %q does not reproduce natively (inputs %v; native: %+v)", vr.v.Harness, caseString(vr.v.Case), kind, vr.v.Label, vr.v.Inputs, o))
			continue
		}
		key := vr.v.Harness + "|" + vr.v.Label
		if reported[key] {
			continue
		}
		reported[key] = true
		nviol++
		rp := filepath.Join(verifDir, "replays", prop, fmt.Sprintf("%s-%d.json", vr.v.Harness, nviol))
		rf := replayFile{Property: prop, Pkg: vr.dir, Label: vr.v.Label, Kind: kind, Rec: ReplayRec{Harness: vr.v.Harness, Case: vr.v.Case, Inputs: vr.v.Inputs, Known: active}, Note: "where: " + vr.v.Where}
		bs, _ := json.MarshalIndent(rf, "", " ")
		os.WriteFile(rp, bs, 0o644)
		fmt.Printf("VIOLATION property=%s replay=%s\n", prop, rp)
		fmt.Printf("  harness=%s case=[%s] %s: %s\n  inputs=%v\n", vr.v.Harness, caseString(vr.v.Case), kind, vr.v.Label, vr.v.Inputs)
		exit = 1
	}
	var knownSeen []string
	for _, kr := range knowns {
		o := outs[kr.tag]
		replays++
		if reproduces("assert", kr.k.Label, o) || (o != nil && o.Panic != "" && strings.HasPrefix(kr.k.Label, "panic")) {
			fmt.Printf("KNOWN-FINDING: property=%s %s [%s]\n", prop, kr.k.What, kr.k.ID)
			knownSeen = append(knownSeen, kr.k.ID)
		} else {
			fmt.Printf("note: known finding %s no longer reproduces on this tree (stale entry; its region is still excluded)\n", kr.k.ID)
		}
	}
	// translator validation
	tvOK, tvBad := 0, 0
	for _, tv := range tvals {
		o := outs[tv.Tag]
		if o == nil {
			continue
		}
		inst := tv.instance()
		inst.Known = active
		sol, err := startSolver(Z3, 5000)
		if err != nil {
			continue
		}
		r := P.runInstance(inst, sol)
		sol.Close()
		nat := append([]string{}, o.Trace...)
		sym := append([]string{}, r.Trace...)
		if strings.Join(nat, "\n") == strings.Join(sym, "\n") && len(r.Stats.Inconclusive) == 0 {
			tvOK++
		} else {
			tvBad++
			inconclusive = append(inconclusive, fmt.Sprintf("translator validation mismatch on %s %v:\n native: %v\n interp: %v %v", tv.Harness, tv.Inputs, nat, sym, r.Stats.Inconclusive))
		}
	}
	var staticNotes []string
	if pd := props[prop]; pd != nil && pd.static != nil {
		sv, notes := pd.static(P)
		staticNotes = notes
		for i, v := range sv {
			nviol++
			rp := filepath.Join(verifDir, "replays", prop, fmt.Sprintf("static-%d.json", i+1))
			bs, _ := json.MarshalIndent(map[string]string{"property": prop, "kind": "static", "finding": v}, "", " ")
			os.WriteFile(rp, bs, 0o644)
			fmt.Printf("VIOLATION property=%s replay=%s\n  %s\n", prop, rp, v)
			exit = 1
		}
	}
	if len(inconclusive) > 0 && exit == 0 {
		exit = 3
	}
	// ----- summary + evidence
	var paths int
	var instrs int64
	disch, conc := 0, 0
	funcs := map[string]string{}
	stubs := map[string]bool{}
	var samples []interface{}
	for _, r := range results {
		paths += r.Stats.Paths
		instrs += r.Stats.Instrs
		disch += r.Stats.Discharged
		conc += r.Stats.ConcreteOK
		for k, v := range r.Stats.Funcs {
			funcs[k] = v
		}
		for _, o := range r.Stats.Obligations {
			if strings.HasPrefix(o, "stub:") {
				stubs[strings.TrimPrefix(o, "stub:")] = true
			} else if len(samples) < 12 {
				samples = append(samples, map[string]interface{}{"harness": r.Inst.Harness, "case": r.Inst.Case, "obligation": o, "verdict": "unsat (holds for all inputs in the bound)"})
			}
		}
	}
	wall := time.Since(t0).Seconds()
	fmt.Printf("property=%s tier=%s instances=%d paths=%d ssa_instructions=%d obligations_discharged_by_solver=%d concrete_checks=%d violations=%d inconclusive=%d known_findings=%d queries{unsat=%d sat=%d unknown=%d error=%d fallbacks=%d} solver_s=%.1f wall_s=%.1f translator_validation{ok=%d bad=%d}\n",
		prop, tier, len(results), paths, instrs, disch, conc, nviol, len(inconclusive), len(knownSeen), gstats.Unsat, gstats.Sat, gstats.Unknown, gstats.Errors, gstats.Fallbacks, float64(gstats.SolverNs)/1e9, wall, tvOK, tvBad)
	for i, m := range inconclusive {
		if i >= 20 {
			fmt.Printf("  ... %d more\n", len(inconclusive)-20)
			break
		}
		fmt.Printf("  INCONCLUSIVE: %s\n", m)
	}
	if exit == 3 {
		fmt.Printf("INCONCLUSIVE property=%s (treated as a broken check, not a pass)\n", prop)
	}
	if writeEvidence {
		var fl []string
		for k, v := range funcs {
			fl = append(fl, k+" @ "+v)
		}
		sort.Strings(fl)
		var sl []string
		for s := range stubs {
			sl = append(sl, s)
		}
		sort.Strings(sl)
		if len(samples) == 0 {
			samples = append(samples, map[string]interface{}{"note": "no solver-discharged obligation in this run"})
		}
		pi := propInfo(prop)
		ev := map[string]interface{}{
			"property_id": prop, "tier": tier, "seed": seed, "level": evidenceLevel(prop),
			"coverage": map[string]interface{}{
				"states":                        maxInt(paths, 0),
				"transitions":                   instrs,
				"traces_validated_against_impl": replays + tvOK,
				"samples":                       samples,
				"explanation":                   "bounded symbolic execution of the go/ssa form of /repo's working tree; states = symbolic paths completed, transitions = SSA instructions executed symbolically; each obligation is decided by an SMT solver for all values of the symbolic inputs inside the stated bounds",
				"harness_instances":             len(results),
				"obligations_discharged_unsat":  disch,
				"concrete_checks":               conc,
				"functions_encoded":             fl,
				"bounds":                        pi.Bounds,
				"outside_claim":                 pi.Outside,
				"queries":                       map[string]int64{"unsat": gstats.Unsat, "sat": gstats.Sat, "unknown": gstats.Unknown, "error": gstats.Errors, "portfolio_fallbacks": gstats.Fallbacks},
				"solver_s":                      float64(gstats.SolverNs) / 1e9,
				"stubs":                         sl,
				"known_findings_seen":           knownSeen,
				"inconclusive":                  inconclusive,
				"static_scan":                   staticNotes,
				"translator_validation":         map[string]int{"vectors_agreeing": tvOK, "vectors_disagreeing": tvBad},
				"exhaustive":                    false,
			},
			"assumptions": pi.Assumptions,
			"wall_s":      wall,
			"violations":  nviol,
		}
		os.MkdirAll(filepath.Join(verifDir, "evidence"), 0o755)
		bs, _ := json.MarshalIndent(ev, "", " ")
		os.WriteFile(filepath.Join(verifDir, "evidence", prop+".json"), bs, 0o644)
	}
	return exit
}

func evidenceLevel(prop string) string {
	if prop == "C19" {
		return "other" // frame argument + static scan instead of interleaving exploration (matches MANIFEST)
	}
	return "model_checking"
}

func maxInt(a, b int) int {
	if a > b {
		return a
	}
	return b
}
