package main

func init() {
	props["C20"] = &propDef{
		info: PropInfo{
			Bounds: []string{
				"set helpers at int64: slices of length 0..3 x 0..3 (quick) / 0..4 x 0..4 (thorough) with symbolic elements, membership compared through a symbolic probe value",
				"Max/Min at int64 and float64 (NaN excluded): length 0..4",
				"CalculateArithmeticShift: index any int64, shift case-split over -62..62, compared with 128-bit ghost floor(i*2^s)",
				"linear vector laws: Add/Sub/Scale/NewVectorFromPoints equal their component formulas bit for bit (exact IEEE, cvc5); Dot/Cross/L1Norm are the documented formulas structurally (float operations uninterpreted); Line3.Start/ToPoint(0) exact, ToPoint(1) = End and within 1e-9 of the end point (relaxed encoding); components up to 1e6 in magnitude",
				"Combinations: every 0 <= k <= n <= 6 (quick) / 8 (thorough), run concretely (the function has no other input)",
			},
			Outside: []string{"non-linear float identities (Norm, Unit, Cos, RotateBetweenVector, QuatFromAxisAngle, matrix associativity / MulVec agreement): non-linear float arithmetic with sqrt/sin/cos, not decided by this technique", "slices longer than 4", "n > 8 for Combinations"},
		},
		insts: func(tier string) []*Instance {
			var is []*Instance
			mx := 3
			if tier == "thorough" {
				mx = 4
			}
			for a := 0; a <= mx; a++ {
				for b := 0; b <= mx; b++ {
					in := mk("common", "VerifC20Sets", cs("n1", a, "n2", b))
					in.Unwind = 40
					in.MaxSeconds = 3600
					is = append(is, in)
				}
			}
			for n := 0; n <= 4; n++ {
				is = append(is, mk("common", "VerifC20MaxMin", cs("n", n)))
				in := mk("common", "VerifC20MaxMinFloat", cs("n", n))
				in.Solver = CVC5
				is = append(is, in)
			}
			for s := -62; s <= 62; s++ {
				is = append(is, mk("common", "VerifC20Shift", cs("s", s)))
			}
			// beyond the property's |shift| < 63: floor semantics still hold on the current tree (Go's >> sign-fills for any
			// count), checked so that a "guard" for large counts cannot change it silently
			for _, s := range []int{-127, -100, -65, -64, -63, 63, 64} {
				is = append(is, mk("common", "VerifC20Shift", cs("s", s)))
			}
			vl := mk("common/spatial", "VerifC20VecLinear", nil)
			vl.Solver = CVC5
			vl.Timeout = 300000
			vp := mk("common/spatial", "VerifC20VecProducts", nil)
			vp.Opaque = true // products of two symbolic doubles: exact IEEE did not finish (800 s); the formulas are compared structurally
			ln := mk("common/spatial", "VerifC20Line", nil)
			ln.Relaxed = true
			ln.RelaxedUF = true
			ln.Timeout = 120000
			is = append(is, vl, vp, ln)
			nmax := 6
			if tier == "thorough" {
				nmax = 8
			}
			for n := 0; n <= nmax; n++ {
				for k := 0; k <= n; k++ {
					in := mk("common", "VerifC20Combinations", cs("n", n, "k", k))
					in.Unwind = 1000
					is = append(is, in)
				}
			}
			return is
		},
		tv: func(tier string, seed int64) []*TV {
			r := &rng{uint64(seed) + 20}
			var tvs []*TV
			for i := 0; i < 5; i++ {
				in := map[string]string{"p": i2s(r.rangeI(0, 3))}
				for j := 0; j < 3; j++ {
					in[f("a%d", j)] = i2s(r.rangeI(0, 3))
					in[f("b%d", j)] = i2s(r.rangeI(0, 3))
				}
				tvs = append(tvs, &TV{Harness: "VerifC20Sets", PkgDir: "common", Unwind: 40, Case: cs("n1", 3, "n2", 2), Inputs: in})
				tvs = append(tvs, &TV{Harness: "VerifC20Shift", PkgDir: "common", Case: cs("s", r.rangeI(-62, 62)), Inputs: map[string]string{"i": i2s(int64(r.next()))}})
			}
			tvs = append(tvs, &TV{Harness: "VerifC20Combinations", PkgDir: "common", Unwind: 1000, Case: cs("n", 5, "k", 3)})
			tvs = append(tvs, &TV{Harness: "VerifC20MaxMin", PkgDir: "common", Case: cs("n", 3), Inputs: map[string]string{"a0": "5", "a1": "-7", "a2": "5"}})
			return tvs
		},
	}
}

func f(format string, a ...interface{}) string { return sprintf(format, a...) }
