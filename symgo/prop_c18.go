package main

func init() {
	props["C18"] = &propDef{
		info: PropInfo{
			Bounds: []string{
				"structure only, with the third-party transform as uninterpreted functions: lists of 0..3 points with arbitrary real longitude and altitude and a latitude chosen per point from {12.5, -33.25}, EPSG codes 3857, 900913, 4978, 3035 and 31287 (known) and 0, 1, 3858 (unknown)",
				"decided: list length and order, that X and Y are the first two results of transform(4326 -> code) applied to (lon, lat, alt) in that argument order (and code -> 4326 for the inverse), that the altitude is the input altitude and not the transform's third result, that any transform error or unknown code is a conversion error",
			},
			Outside:     []string{"that EPSG:3857 is spherical Mercator on radius 6378137 m and that the round trip is within 2e-10 degrees (third-party transcendental code: wgs84)", "lists longer than 3", "EPSG codes other than the listed ones"},
			Assumptions: []string{"wgs84.SafeTransform is a deterministic function of (from, to, a, b, c) without side effects; wgs84.EPSG().Code(c) is nil exactly for codes missing from the table in the library's epsg.go (read at run time)"},
		},
		insts: func(tier string) []*Instance {
			var is []*Instance
			codes := [][2]int{{3857, 1}, {4978, 1}, {3858, 0}, {0, 0}}
			if tier == "thorough" {
				codes = append(codes, [2]int{900913, 1}, [2]int{3035, 1}, [2]int{31287, 1}, [2]int{1, 0})
			}
			for _, c := range codes {
				for n := 0; n <= 3; n++ {
					if tier == "quick" && n == 2 {
						continue
					}
					for _, h := range []string{"VerifC18Forward", "VerifC18Inverse"} {
						in := mk("shape", h, cs("n", n, "code", c[0], "known", c[1]))
						in.Opaque = true
						in.Unwind = 40
						is = append(is, in)
					}
				}
			}
			return is
		},
		tv: func(tier string, seed int64) []*TV {
			// concrete vectors only for unknown codes: the interpreter has no concrete model of the third-party transform
			return []*TV{
				{Harness: "VerifC18Forward", PkgDir: "shape", Unwind: 40, Case: cs("n", 1, "code", 3858, "known", 0), Inputs: map[string]string{"lon0": f2s(139.75), "latsel0": "1", "alt0": f2s(10)}},
				{Harness: "VerifC18Inverse", PkgDir: "shape", Unwind: 40, Case: cs("n", 2, "code", 0, "known", 0), Inputs: map[string]string{"x0": f2s(15556463.0), "y0": f2s(4257424.0), "alt0": f2s(10), "x1": f2s(1), "y1": f2s(2), "alt1": f2s(3)}},
			}
		},
	}
}
