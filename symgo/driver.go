package main

// Driver: loads /repo's working tree with the harness overlay, runs harness instances on a
// worker pool (one solver process per worker), replays solver models natively, writes evidence.

import (
	"encoding/json"
	"fmt"
	"os"
	"os/exec"
	"path/filepath"
	"regexp"
	"sort"
	"strings"
	"sync"
	"sync/atomic"
	"time"

	"golang.org/x/tools/go/packages"
	"golang.org/x/tools/go/ssa"
	"golang.org/x/tools/go/ssa/ssautil"
)

// repoDir is /repo for every registered command; SYMGO_REPO exists only so that seeded changes can be
// examined in scratch worktrees in parallel during development (the evidence records the directory used).
var repoDir = func() string {
	if d := os.Getenv("SYMGO_REPO"); d != "" {
		return d
	}
	return "/repo"
}()

const repoMod = "github.com/trajectoryjp/spatial_id_go/v4"

var verifDir = "/verif"

type Instance struct {
	Prop        string
	Harness     string           // function name
	PkgDir      string           // e.g. "transform"
	Case        map[string]int64 // vCase parameters
	Unwind      int
	Budget      int64
	Solver      SolverKind
	Timeout     int // ms per query
	MaxPaths    int
	Known       []string // active known-finding ids
	MaxSeconds  float64
	Relaxed     bool // floats as reals with rounding-error terms
	RelaxedUF   bool
	Opaque      bool // structure-only float mode (implies the real-sorted encoding)
	NoSubnormal bool
	Stateless   bool              // every query on a fresh solver process fed with the path's script (z3's one-shot pipeline decides some mixed Real/BV goals its incremental core does not)
	Concrete    map[string]string // if set: run as a concrete interpreter with these inputs (translator validation)
}

type InstanceResult struct {
	Inst  *Instance
	Stats PathStats
	WallS float64
	Err   string
	Trace []string
}

type Program struct {
	prog       *ssa.Program
	pkgs       map[string]*ssa.Package // by dir relative to repo
	fset       interface{}
	harnessFns map[string][]string // pkgdir -> harness function names
	overlay    map[string][]byte
}

var pkgNameOf = map[string]string{
	"common": "common", "common/object": "object", "common/spatial": "spatial", "common/errors": "errors",
	"shape": "shape", "integrate": "integrate", "operated": "operated", "detector": "detector", "transform": "transform",
}

func buildOverlay() (map[string][]byte, map[string][]string, error) {
	ov := map[string][]byte{}
	files := map[string][]string{}
	tmpl, err := os.ReadFile(filepath.Join(verifDir, "harness", "rt.go.tmpl"))
	if err != nil {
		return nil, nil, err
	}
	for dir, pname := range pkgNameOf {
		hd := filepath.Join(verifDir, "harness", dir)
		ents, err := os.ReadDir(hd)
		if err != nil {
			continue
		}
		n := 0
		for _, en := range ents {
			if en.IsDir() || !strings.HasSuffix(en.Name(), ".go") {
				continue
			}
			data, err := os.ReadFile(filepath.Join(hd, en.Name()))
			if err != nil {
				return nil, nil, err
			}
			dst := filepath.Join(repoDir, dir, "zz_verif_"+en.Name())
			ov[dst] = data
			files[dir] = append(files[dir], dst)
			n++
		}
		if n > 0 {
			dst := filepath.Join(repoDir, dir, "zz_verif_rt.go")
			ov[dst] = []byte(strings.Replace(string(tmpl), "package PKGNAME", "package "+pname, 1))
			files[dir] = append(files[dir], dst)
		}
	}
	return ov, files, nil
}

func loadProgram() (*Program, error) {
	ov, _, err := buildOverlay()
	if err != nil {
		return nil, err
	}
	cfg := &packages.Config{
		Mode:    packages.LoadAllSyntax,
		Dir:     repoDir,
		Overlay: ov,
		Env:     append(os.Environ(), "GOFLAGS=-mod=mod", "GOPROXY=off", "GOSUMDB=off", "GOTOOLCHAIN=local"),
	}
	pkgs, err := packages.Load(cfg, "./...")
	if err != nil {
		return nil, err
	}
	var errs []string
	packages.Visit(pkgs, nil, func(p *packages.Package) {
		for _, e := range p.Errors {
			errs = append(errs, e.Error())
		}
	})
	if len(errs) > 0 {
		return nil, fmt.Errorf("package load errors:\n%s", strings.Join(errs, "\n"))
	}
	prog, spkgs := ssautil.AllPackages(pkgs, ssa.InstantiateGenerics)
	prog.Build()
	P := &Program{prog: prog, pkgs: map[string]*ssa.Package{}, harnessFns: map[string][]string{}, overlay: ov}
	// EPSG table of the real wgs84 library (for the Code stub)
	epsgCodes = nil
	for _, sp := range prog.AllPackages() {
		if sp.Pkg.Path() == "github.com/wroge/wgs84" {
			if f := sp.Func("EPSG"); f != nil {
				file := prog.Fset.Position(f.Pos()).Filename
				if data, err := os.ReadFile(file); err == nil {
					for _, m := range regexp.MustCompile(`(?m)^\s+(\d+):\s`).FindAllStringSubmatch(string(data), -1) {
						var v int64
						fmt.Sscan(m[1], &v)
						epsgCodes = append(epsgCodes, v)
					}
				}
			}
		}
	}
	for _, sp := range spkgs {
		if sp == nil {
			continue
		}
		path := sp.Pkg.Path()
		if !strings.HasPrefix(path, repoMod) {
			continue
		}
		dir := strings.TrimPrefix(strings.TrimPrefix(path, repoMod), "/")
		P.pkgs[dir] = sp
		for name, m := range sp.Members {
			if fn, ok := m.(*ssa.Function); ok && strings.HasPrefix(name, "Verif") && fn.Signature.Params().Len() == 0 {
				P.harnessFns[dir] = append(P.harnessFns[dir], name)
			}
		}
		sort.Strings(P.harnessFns[dir])
	}
	return P, nil
}

// runInstance explores all paths of one harness instance.
func (P *Program) runInstance(inst *Instance, sol *Solver) *InstanceResult {
	t0 := time.Now()
	res := &InstanceResult{Inst: inst}
	res.Stats.Reached = map[string]int{}
	res.Stats.Ended = map[string]int{}
	res.Stats.Funcs = map[string]string{}
	pkg := P.pkgs[inst.PkgDir]
	if pkg == nil {
		res.Err = "no package " + inst.PkgDir
		return res
	}
	fn := pkg.Func(inst.Harness)
	if fn == nil {
		res.Err = "no harness function " + inst.Harness + " in " + inst.PkgDir
		return res
	}
	work := [][]Decision{nil}
	stubs := map[string]bool{}
	for len(work) > 0 {
		prefix := work[len(work)-1]
		work = work[:len(work)-1]
		if time.Since(t0).Seconds() > inst.MaxSeconds {
			res.Stats.Inconclusive = append(res.Stats.Inconclusive, fmt.Sprintf("time budget %.0fs exhausted with %d prefixes pending", inst.MaxSeconds, len(work)+1))
			break
		}
		if res.Stats.Paths >= inst.MaxPaths {
			res.Stats.Inconclusive = append(res.Stats.Inconclusive, fmt.Sprintf("path budget %d exhausted with %d prefixes pending", inst.MaxPaths, len(work)+1))
			break
		}
		e := &Exec{
			prog: P.prog, sol: sol, prefix: prefix, globals: map[*ssa.Global]*Object{}, allow: map[*Object]bool{},
			unwind: inst.Unwind, cases: inst.Case, harness: inst.Harness, budget: inst.Budget, stats: &res.Stats,
			tokLitEq: map[string]Bool{}, tokOvfAx: map[int]bool{}, tokB0: map[int]bool{}, ufs: map[string]bool{}, stubs: stubs, timeoutMs: inst.Timeout, repoPrefix: repoMod,
			known: map[string]bool{}, concrete: inst.Concrete, relaxed: (inst.Relaxed || inst.Opaque) && inst.Concrete == nil, relaxedUF: inst.RelaxedUF, opaque: inst.Opaque, noSubnormal: inst.NoSubnormal, deadline: t0.Add(time.Duration(inst.MaxSeconds * float64(time.Second))),
		}
		for _, k := range inst.Known {
			e.known[k] = true
		}
		sol.log = sol.log[:0]
		sol.tacticOff = inst.Relaxed || inst.Opaque // the bit-vector tactic does not apply to real arithmetic
		sol.stateless = inst.Stateless
		sol.Send("(push 1)")
		status := P.runPath(e, fn)
		sol.Send("(pop 1)")
		res.Stats.Paths++
		if slowLog && res.Stats.Paths%50 == 0 {
			fmt.Fprintf(os.Stderr, "  hist %v\n", deadHist)
			fmt.Fprintf(os.Stderr, "  .. %s %v paths=%d pending=%d ended=%v %.0fs\n", inst.Harness, inst.Case, res.Stats.Paths, len(work)+len(e.pending), res.Stats.Ended, time.Since(t0).Seconds())
		}
		res.Stats.Instrs += e.instrs
		res.Stats.Ended[status.status]++
		if slowLog && status.status != "done" {
			deadHist[status.status+": "+status.msg]++
		}
		switch status.status {
		case "unsupported", "unwind", "budget", "internal":
			res.Stats.Inconclusive = append(res.Stats.Inconclusive, status.status+": "+status.msg)
		}
		work = append(work, e.pending...)
		if inst.Concrete != nil {
			res.Trace = e.traceOut
		}
		if sol.dead {
			res.Err = "solver process died"
			break
		}
	}
	res.Stats.Obligations = append(res.Stats.Obligations)
	for s := range stubs {
		res.Stats.Obligations = append(res.Stats.Obligations, "stub:"+s)
	}
	res.WallS = time.Since(t0).Seconds()
	return res
}

func (P *Program) runPath(e *Exec, fn *ssa.Function) (st pathEnd) {
	defer func() {
		if x := recover(); x != nil {
			if pe, ok := x.(pathEnd); ok {
				st = pe
				return
			}
			st = pathEnd{"internal", fmt.Sprintf("%v @%s", x, e.where())}
		}
	}()
	// package initialisers of the repository packages (globals such as transform.alt25)
	for _, dir := range []string{"common/errors", "common", "common/object", "common/spatial", "operated", "shape", "integrate", "transform", "detector"} {
		if p := P.pkgs[dir]; p != nil {
			if ini := p.Func("init"); ini != nil {
				e.inInit = true
				e.call(ini, nil, nil)
				e.inInit = false
			}
		}
	}
	e.call(fn, nil, nil)
	return pathEnd{"done", ""}
}

// ---------- native replay

type ReplayRec struct {
	Harness string            `json:"harness"`
	Case    map[string]int64  `json:"case"`
	Inputs  map[string]string `json:"inputs"`
	Known   []string          `json:"known"`
	Tag     string            `json:"tag"`
}

type ReplayOut struct {
	Fails  []string
	Panic  string
	Assume bool
	Reach  []string
	Trace  []string
	Ran    bool
}

var replayMu sync.Mutex
var deadHist = map[string]int{}

// nativeReplay runs the records against the native build of package dir (one go test run).
func (P *Program) nativeReplay(dir string, recs []ReplayRec) (map[string]*ReplayOut, error) {
	out := map[string]*ReplayOut{}
	if len(recs) == 0 {
		return out, nil
	}
	work, err := os.MkdirTemp("", "symgo-replay-")
	if err != nil {
		return nil, err
	}
	defer os.RemoveAll(work)
	ovj := map[string]map[string]string{"Replace": {}}
	for dst, data := range P.overlay {
		src := filepath.Join(work, strings.ReplaceAll(strings.TrimPrefix(dst, repoDir+"/"), "/", "__"))
		if err := os.WriteFile(src, data, 0o644); err != nil {
			return nil, err
		}
		ovj["Replace"][dst] = src
	}
	// generated test entry with the harness table
	var sb strings.Builder
	sb.WriteString("package " + pkgNameOf[dir] + "\n\nimport \"testing\"\n\nfunc TestVerifReplay(t *testing.T) {\n\tvReplayMain(map[string]func(){\n")
	for _, h := range P.harnessFns[dir] {
		sb.WriteString(fmt.Sprintf("\t\t%q: %s,\n", h, h))
	}
	sb.WriteString("\t})\n}\n")
	tsrc := filepath.Join(work, "replay_test.go")
	os.WriteFile(tsrc, []byte(sb.String()), 0o644)
	ovj["Replace"][filepath.Join(repoDir, dir, "zz_verif_replay_test.go")] = tsrc
	oj, _ := json.Marshal(ovj)
	ovfile := filepath.Join(work, "overlay.json")
	os.WriteFile(ovfile, oj, 0o644)
	rj, _ := json.Marshal(recs)
	rfile := filepath.Join(work, "replay.json")
	os.WriteFile(rfile, rj, 0o644)
	cmd := exec.Command("go", "test", "-vet=off", "-count=1", "-timeout", "600s", "-overlay", ovfile, "-run", "^TestVerifReplay$", "-v", "./"+dir)
	cmd.Dir = repoDir
	cmd.Env = append(os.Environ(), "GOFLAGS=-mod=mod", "GOPROXY=off", "GOSUMDB=off", "GOTOOLCHAIN=local", "VERIF_REPLAY="+rfile)
	replayMu.Lock()
	bs, runErr := cmd.CombinedOutput()
	replayMu.Unlock()
	var cur *ReplayOut
	for _, line := range strings.Split(string(bs), "\n") {
		line = strings.TrimSpace(line)
		switch {
		case strings.HasPrefix(line, "VERIF-BEGIN "):
			cur = &ReplayOut{Ran: true}
			out[strings.TrimPrefix(line, "VERIF-BEGIN ")] = cur
		case strings.HasPrefix(line, "VERIF-END "):
			cur = nil
		case cur == nil:
		case strings.HasPrefix(line, "VERIF-ASSERT-FAIL "):
			cur.Fails = append(cur.Fails, strings.TrimPrefix(line, "VERIF-ASSERT-FAIL "))
			cur.Trace = append(cur.Trace, "FAIL "+strings.TrimPrefix(line, "VERIF-ASSERT-FAIL "))
		case strings.HasPrefix(line, "VERIF-PANIC "):
			cur.Panic = strings.TrimPrefix(line, "VERIF-PANIC ")
		case line == "VERIF-ASSUME-FAIL":
			cur.Assume = true
		case strings.HasPrefix(line, "VERIF-REACH "):
			cur.Reach = append(cur.Reach, strings.TrimPrefix(line, "VERIF-REACH "))
		case strings.HasPrefix(line, "VERIF-TRACE "):
			cur.Trace = append(cur.Trace, strings.TrimPrefix(line, "VERIF-TRACE "))
		}
	}
	if len(out) == 0 {
		return out, fmt.Errorf("native replay produced no records (%v):\n%s", runErr, tail(string(bs), 3000))
	}
	return out, nil
}

func tail(s string, n int) string {
	if len(s) > n {
		return s[len(s)-n:]
	}
	return s
}

// ---------- running a property

type PropResult struct {
	Results []*InstanceResult
	WallS   float64
}

func (P *Program) runAll(insts []*Instance, jobs int, verbose bool) []*InstanceResult {
	results := make([]*InstanceResult, len(insts))
	var next int64 = -1
	var wg sync.WaitGroup
	for w := 0; w < jobs; w++ {
		wg.Add(1)
		go func() {
			defer wg.Done()
			solvers := map[string]*Solver{}
			defer func() {
				for _, s := range solvers {
					s.Close()
				}
			}()
			for {
				i := int(atomic.AddInt64(&next, 1))
				if i >= len(insts) {
					return
				}
				inst := insts[i]
				key := fmt.Sprintf("%d/%d", inst.Solver, inst.Timeout)
				sol := solvers[key]
				if sol == nil || sol.dead {
					var err error
					sol, err = startSolver(inst.Solver, inst.Timeout)
					if err != nil {
						results[i] = &InstanceResult{Inst: inst, Err: "cannot start solver: " + err.Error()}
						continue
					}
					solvers[key] = sol
				}
				r := P.runInstance(inst, sol)
				results[i] = r
				if verbose {
					fmt.Fprintf(os.Stderr, "[%s %v] paths=%d discharged=%d viol=%d inconcl=%d ended=%v %.1fs %s\n", inst.Harness, inst.Case, r.Stats.Paths, r.Stats.Discharged, len(r.Stats.Violations), len(r.Stats.Inconclusive), r.Stats.Ended, r.WallS, r.Err)
					for _, m := range r.Stats.Inconclusive {
						fmt.Fprintf(os.Stderr, "    inconclusive: %s\n", m)
					}
				}
			}
		}()
	}
	wg.Wait()
	return results
}

var labelKey = regexp.MustCompile(`\s+`)

func caseString(c map[string]int64) string {
	ks := make([]string, 0, len(c))
	for k := range c {
		ks = append(ks, k)
	}
	sort.Strings(ks)
	var parts []string
	for _, k := range ks {
		parts = append(parts, fmt.Sprintf("%s=%d", k, c[k]))
	}
	return strings.Join(parts, ",")
}
