package main

// Property tables: which harness instances decide which property at which tier, with the
// bounds, assumptions and out-of-claim statements that go into the evidence.

import (
	"fmt"
	"math"
	"sort"
)

type PropInfo struct {
	Bounds      []string
	Outside     []string
	Assumptions []string
}

type propDef struct {
	info  PropInfo
	insts func(tier string) []*Instance
	tv    func(tier string, seed int64) []*TV
	// static: an additional whole-program scan over the SSA (used by C19); returns violations and notes
	static func(P *Program) (viol []string, notes []string)
}

var props = map[string]*propDef{}

func allProps() []string {
	var ks []string
	for k := range props {
		ks = append(ks, k)
	}
	sort.Strings(ks)
	return ks
}

func instancesFor(prop, tier string) []*Instance {
	p := props[prop]
	if p == nil {
		return nil
	}
	is := p.insts(tier)
	for _, i := range is {
		i.Prop = prop
	}
	return is
}

func propInfo(prop string) PropInfo {
	base := []string{
		"go/packages + go/ssa (x/tools v0.29.0) faithfully represent /repo's working tree",
		"the symgo executor and its SMT-LIB2 printers (checked on every run by translator validation: the same harness run natively and by the interpreter on concrete vectors must produce identical traces)",
		"z3 4.8.12 / z3 5.1.0 / cvc5 1.0.3 answer unsat only when unsat; any (error ...) line makes a query inconclusive",
		"map iteration visits keys in insertion order unless the harness asks for all orders (order-independence is what C16 decides)",
		"amd64 float semantics: IEEE-754 binary64, round-to-nearest-even, no FMA contraction, cvttsd2si for float->int",
	}
	p := props[prop]
	if p == nil {
		return PropInfo{Assumptions: base}
	}
	pi := p.info
	pi.Assumptions = append(append([]string{}, pi.Assumptions...), base...)
	return pi
}

// TV is a translator-validation vector: concrete inputs for one harness.
type TV struct {
	Harness string
	PkgDir  string
	Case    map[string]int64
	Inputs  map[string]string
	Unwind  int
	Tag     string
}

func (t *TV) instance() *Instance {
	in := mk(t.PkgDir, t.Harness, t.Case)
	in.Concrete = t.Inputs
	if in.Concrete == nil {
		in.Concrete = map[string]string{}
	}
	if t.Unwind > 0 {
		in.Unwind = t.Unwind
	}
	return in
}

func tvVectors(prop, tier string, seed int64) []*TV {
	p := props[prop]
	if p == nil || p.tv == nil {
		return nil
	}
	return p.tv(tier, seed)
}

func mk(dir, harness string, c map[string]int64) *Instance {
	if c == nil {
		c = map[string]int64{}
	}
	return &Instance{Harness: harness, PkgDir: dir, Case: c, Unwind: 8, Budget: 20_000_000, Solver: Z3, Timeout: 20000, MaxPaths: 20000, MaxSeconds: 900}
}

func cs(kv ...interface{}) map[string]int64 {
	m := map[string]int64{}
	for i := 0; i+1 < len(kv); i += 2 {
		switch v := kv[i+1].(type) {
		case int:
			m[kv[i].(string)] = int64(v)
		case int64:
			m[kv[i].(string)] = v
		}
	}
	return m
}

// splitmix for seeded vectors
type rng struct{ s uint64 }

func (r *rng) next() uint64 {
	r.s += 0x9e3779b97f4a7c15
	z := r.s
	z = (z ^ (z >> 30)) * 0xbf58476d1ce4e5b9
	z = (z ^ (z >> 27)) * 0x94d049bb133111eb
	return z ^ (z >> 31)
}
func (r *rng) intn(n int64) int64        { return int64(r.next() % uint64(n)) }
func (r *rng) rangeI(lo, hi int64) int64 { return lo + r.intn(hi-lo+1) }

func i2s(v int64) string   { return fmt.Sprint(v) }
func f2s(f float64) string { return fmt.Sprintf("0x%016x", math.Float64bits(f)) }

// selfTest: run-time conformance checks of the stub contracts (DESIGN §2.5).
func selfTest() error {
	for k := 0; k <= 62; k++ {
		if math.Pow(2, float64(k)) != math.Ldexp(1, k) {
			return fmt.Errorf("math.Pow(2,%d) is not exact", k)
		}
		if int64(math.Pow(2, float64(k))) != int64(1)<<uint(k) {
			return fmt.Errorf("int64(math.Pow(2,%d)) != 1<<%d", k, k)
		}
	}
	for _, v := range [][3]float64{{7, 4, 3}, {1 << 40, 1 << 20, 0}, {(1 << 52) + 5, 8, 5}, {0, 1, 0}} {
		if math.Mod(v[0], v[1]) != v[2] {
			return fmt.Errorf("math.Mod(%v,%v) != %v", v[0], v[1], v[2])
		}
	}
	return nil
}

func sprintf(format string, a ...interface{}) string { return fmt.Sprintf(format, a...) }
