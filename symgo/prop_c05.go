package main

func init() {
	props["C05"] = &propDef{
		info: PropInfo{
			Bounds: []string{
				"extended-ID checks: zoom quadruples (h1,v1,h2,v2) over a sample (quick 40, thorough all with zooms in {0,1,2,(9 thorough),10,25,26,35}, plus three 9-vs-10 quadruples in quick and |difference| arbitrary); all indices symbolic, both signs for f; both argument orders and the reflexive call in one harness",
				"array forms: 0..2 x 0..2 elements; extended form with per-element zoom offsets on each axis chosen by five bit-mask pairs (equal, alternating, vertical-only, horizontal-only, crossed), plus one 2 x 2 case with zooms 5 and 15 inside a list (decimal texts that extend one another); tree form with mixed zooms inside a list in both orders",
				"radix-tree checks: zoom pairs z1,z2 in 1..4 (quick) / 1..6 (thorough) with |z1-z2| <= 2, plus the sub-metre zooms 25..27 paired within +-1; the tree (multidimensional-radix-tree) is executed from its SSA, child tables indexed by symbolic branch paths use a hit/miss overlay model",
			},
			Outside: []string{"tree checks at zooms 7..24 and beyond 27 (depth-linear but each level adds solver work)", "lists longer than 2", "spatial IDs outside +-2^24 m (documented precondition)"},
		},
		insts: func(tier string) []*Instance {
			var is []*Instance
			zs := []int{0, 1, 2, 10, 25, 26, 35}
			if tier == "thorough" {
				zs = []int{0, 1, 2, 9, 10, 25, 26, 35}
			} else {
				// zoom pairs whose decimal texts order differently from their values (9 vs 10)
				for _, q := range [][4]int{{9, 9, 10, 10}, {10, 9, 9, 10}, {9, 2, 10, 10}} {
					in := mk("detector", "VerifC05Ext", cs("h1", q[0], "v1", q[1], "h2", q[2], "v2", q[3]))
					in.Unwind = 40
					is = append(is, in)
				}
			}
			cnt := 0
			for _, h1 := range zs {
				for _, v1 := range zs {
					for _, h2 := range zs {
						for _, v2 := range zs {
							cnt++
							if tier == "quick" && cnt%61 != 0 && !(h1 == 1 && v1 == 1 && h2 == 0 && v2 == 0) && !(h1 == 26 && v1 == 26 && h2 == 25 && v2 == 10) {
								continue
							}
							in := mk("detector", "VerifC05Ext", cs("h1", h1, "v1", v1, "h2", h2, "v2", v2))
							in.Unwind = 40
							is = append(is, in)
						}
					}
				}
			}
			{
				// zooms 5 and 15 inside one list (decimal texts "5" / "15"): 2 x 2 elements
				in := mk("detector", "VerifC05ExtArrayZooms", cs("n1", 2, "n2", 2, "h0", 5, "v0", 5, "h1", 5, "v1", 5, "h2", 15, "v2", 15, "h3", 5, "v3", 15))
				in.Unwind = 40
				is = append(is, in)
			}
			for n1 := 0; n1 <= 2; n1++ {
				for n2 := 0; n2 <= 2; n2++ {
					for ord := 0; ord <= 1; ord++ {
						if ord == 1 && n1+n2 < 2 {
							continue
						}
						masks := [][2]int{{0b0101, 0b0101}, {0b1010, 0b1010}}
						if ord == 1 {
							masks = [][2]int{{0b0000, 0b0110}, {0b0110, 0b0000}, {0b0011, 0b0101}}
						}
						for _, mk2 := range masks {
							in := mk("detector", "VerifC05ExtArray", cs("n1", n1, "n2", n2, "h", 3, "v", 2, "hm", mk2[0], "vm", mk2[1]))
							in.Unwind = 40
							is = append(is, in)
						}
						in := mk("detector", "VerifC05TreeArray", cs("n1", n1, "n2", n2, "z", 2, "ord", ord))
						in.Unwind = 80
						in.MaxSeconds = 1500
						is = append(is, in)
					}
				}
			}
			mz := 4
			if tier == "thorough" {
				mz = 6
			}
			for z1 := 1; z1 <= mz; z1++ {
				for z2 := 1; z2 <= mz; z2++ {
					if z1-z2 > 2 || z2-z1 > 2 {
						continue
					}
					in := mk("detector", "VerifC05Tree", cs("z1", z1, "z2", z2, "sym", 1))
					in.Unwind = 80
					in.MaxSeconds = 1500
					is = append(is, in)
				}
			}
			for _, p := range [][2]int{{25, 25}, {26, 26}, {27, 27}, {25, 26}, {26, 25}, {26, 27}} {
				in := mk("detector", "VerifC05Tree", cs("z1", p[0], "z2", p[1], "sym", 0))
				in.Unwind = 80
				in.MaxSeconds = 1500
				is = append(is, in)
			}
			return is
		},
		tv: func(tier string, seed int64) []*TV {
			return []*TV{
				{Harness: "VerifC05Ext", PkgDir: "detector", Unwind: 40, Case: cs("h1", 1, "v1", 1, "h2", 0, "v2", 0), Inputs: map[string]string{"x1": "0", "y1": "0", "f1": "-1", "x2": "0", "y2": "0", "f2": "0"}},
				{Harness: "VerifC05Ext", PkgDir: "detector", Unwind: 40, Case: cs("h1", 20, "v1", 25, "h2", 21, "v2", 26), Inputs: map[string]string{"x1": "85263", "y1": "65423", "f1": "5", "x2": "170526", "y2": "130846", "f2": "11"}},
				{Harness: "VerifC05Tree", PkgDir: "detector", Unwind: 80, Case: cs("z1", 3, "z2", 4, "sym", 1), Inputs: map[string]string{"x1": "5", "y1": "2", "f1": "-2", "x2": "10", "y2": "5", "f2": "-4"}},
				{Harness: "VerifC05Tree", PkgDir: "detector", Unwind: 80, Case: cs("z1", 26, "z2", 26, "sym", 0), Inputs: map[string]string{"x1": "0", "y1": "0", "f1": "0", "x2": "0", "y2": "0", "f2": "1"}},
				{Harness: "VerifC05TreeArray", PkgDir: "detector", Unwind: 80, Case: cs("n1", 1, "n2", 1, "z", 2, "ord", 0), Inputs: map[string]string{"x0": "1", "y0": "1", "f0": "1", "x1": "3", "y1": "3", "f1": "3"}},
			}
		},
	}
}
