package main

// Models of the standard-library functions the library uses, the third-party stubs, and
// the harness primitives (vNondet*, vAssume, vAssert, ...).  Every model is part of the
// claim and is listed in the evidence (Exec.stubs).

import (
	"fmt"
	"go/types"
	"math"
	"math/big"
	"sort"
	"strconv"
	"strings"

	"golang.org/x/tools/go/ssa"
)

var symErrType = types.NewNamed(types.NewTypeName(0, nil, "symerr", nil), types.NewStruct(nil, nil), nil)

func (e *Exec) newErr() Value {
	e.objCtr++
	return Iface{T: symErrType, V: SymErr{id: e.objCtr}}
}

func (e *Exec) strArg(v Value, what string) string {
	s, ok := v.(Str)
	if !ok || !s.isLit() {
		e.unsupported("%s must be a literal string", what)
	}
	return s.litVal()
}

func (e *Exec) uf(name string, nargs int) {
	if e.ufs[name] {
		return
	}
	e.ufs[name] = true
	srt := sortFP
	if e.relaxed {
		srt = "Real"
	}
	args := strings.TrimSpace(strings.Repeat(srt+" ", nargs))
	e.sol.Send("(declare-fun " + name + " (" + args + ") " + srt + ")")
}

func (e *Exec) libm(name string, f func(float64) float64, a Float) Float {
	if a.IsC {
		return mkFloat(f(a.C))
	}
	e.stubs["math."+name+": uninterpreted function (purity only)"] = true
	e.uf("uf_"+name, 1)
	return e.nmF(Float{Sym: "(uf_" + name + " " + e.fT(a) + ")"})
}

// provable: c is implied by the path condition.  The answer is remembered in the decision
// trace so that re-execution of the shared prefix neither repeats the query nor diverges.
func (e *Exec) provable(c Bool) bool {
	if c.IsC {
		return c.C
	}
	if e.pos < len(e.prefix) {
		d := e.prefix[e.pos]
		e.pos++
		e.trace = append(e.trace, d)
		return d.Val
	}
	e.pos++
	r := e.check(bNot(c).T()) == RUnsat
	e.trace = append(e.trace, Decision{Val: r, Forced: true})
	return r
}

func (e *Exec) intrinsic(fn *ssa.Function, name string, args []Value) (Value, bool) {
	// harness primitives live in the package under test; match by bare name
	if fn.Pkg != nil && strings.HasPrefix(fn.Name(), "v") && strings.HasPrefix(fn.Pkg.Pkg.Path(), e.repoPrefix) {
		if r, ok := e.harnessPrim(fn.Name(), args); ok {
			return r, true
		}
	}
	switch name {
	// ----- math
	case "math.Pow":
		x, y := args[0].(Float), args[1].(Float)
		if x.IsC && y.IsC {
			return mkFloat(math.Pow(x.C, y.C)), true
		}
		if x.IsC && x.C == 2 && y.FromInt != nil {
			// zoom levels are case-split: the (integer) exponent is concretised by forking over
			// its feasible values, then the real math.Pow is evaluated
			n := e.concretize(iConv(*y.FromInt, 64, true), "exponent of math.Pow(2,k)", 80)
			e.stubs["math.Pow(2,k) with symbolic integer k: k is case-split over its feasible values (<= 80) and the real function evaluated"] = true
			return mkFloat(math.Pow(2, float64(n.sval()))), true
		}
		e.stubs["math.Pow (general): uninterpreted function"] = true
		e.uf("uf_pow", 2)
		return e.nmF(Float{Sym: "(uf_pow " + e.fT(x) + " " + e.fT(y) + ")"}), true
	case "math.Floor":
		return e.fUnX("floor", args[0].(Float)), true
	case "math.Ceil":
		return e.fUnX("ceil", args[0].(Float)), true
	case "math.Trunc":
		return e.fUnX("trunc", args[0].(Float)), true
	case "math.Round":
		return e.fUnX("round", args[0].(Float)), true
	case "math.Sqrt":
		return e.nmF(fUn("sqrt", args[0].(Float))), true
	case "math.Abs":
		a := args[0].(Float)
		r := e.fUnX("abs", a)
		if a.FromInt != nil && a.FromInt.Signed && a.FromInt.W == 64 {
			n := *a.FromInt
			if e.provable(iCmp("!=", n, mkI64(math.MinInt64))) {
				ab := e.nmI(iIte(iCmp("<", n, mkI64(0)), iNeg(n), n))
				r.FromInt = &ab
			}
		}
		return e.nmF(r), true
	case "math.Min", "math.Max":
		x, y := args[0].(Float), args[1].(Float)
		if x.IsC && y.IsC {
			if name == "math.Min" {
				return mkFloat(math.Min(x.C, y.C)), true
			}
			return mkFloat(math.Max(x.C, y.C)), true
		}
		e.stubs["math.Min/math.Max: selection by comparison (NaN-free arguments; the sign of a zero result is not modelled)"] = true
		op := "<"
		if name == "math.Max" {
			op = ">"
		}
		return e.fIteX(e.fCmpX(op, x, y), x, y), true
	case "math.Mod":
		a, b := args[0].(Float), args[1].(Float)
		if a.IsC && b.IsC {
			return mkFloat(math.Mod(a.C, b.C)), true
		}
		if e.relaxed && !e.opaque {
			// integer-valued dividend (dyadic provenance, scale 0) and a positive integer constant divisor:
			// fmod is exact and keeps the sign of the dividend
			if ka := intROf(a); ka != "" && b.IsC && b.C > 0 && b.C == math.Trunc(b.C) && b.C < 1<<62 {
				m := fmt.Sprint(int64(b.C))
				k := "(ite (>= " + ka + " 0) (mod " + ka + " " + m + ") (- (mod (- " + ka + ") " + m + ")))"
				n := e.fresh("rk")
				e.declare(n, "Int")
				e.sol.Send("(assert (= " + n + " " + k + "))")
				e.stubs["math.Mod(k, m) for integer-valued k and positive integer constant m: exact truncated remainder"] = true
				return Float{Sym: "(to_real " + n + ")", IntR: n}, true
			}
		}
		var ai Int
		switch {
		case a.FromInt != nil:
			ai = iConv(*a.FromInt, 64, true)
		case a.IsC && a.C == math.Trunc(a.C) && math.Abs(a.C) < 1<<53:
			ai = mkI64(int64(a.C))
		default:
			e.unsupported("math.Mod on a non-integer symbolic float")
		}
		var n Int
		switch {
		case b.Pow2Of != nil:
			n = *b.Pow2Of
		case b.IsC && b.C > 0 && math.Exp2(math.Round(math.Log2(b.C))) == b.C:
			n = mkI64(int64(math.Round(math.Log2(b.C))))
		default:
			e.unsupported("math.Mod by a symbolic non-power-of-two")
		}
		pre := bAnd(bAnd(iCmp(">=", ai, mkI64(0)), iCmp("<", ai, mkI64(1<<53))), bAnd(iCmp(">=", n, mkI64(0)), iCmp("<=", n, mkI64(62))))
		if !e.provable(pre) {
			e.unsupported("math.Mod: cannot show 0 <= a < 2^53 and divisor 2^0..2^62")
		}
		e.stubs["math.Mod(a, 2^n) for integer-valued 0 <= a < 2^53: exact integer remainder (fmod is exact)"] = true
		m := iBin("-", iShift(true, mkI64(1), n), mkI64(1))
		return e.iToFX(e.nmI(iBin("&", ai, m))), true
	case "math.Log":
		return e.libm("log", math.Log, args[0].(Float)), true
	case "math.Tan":
		return e.libm("tan", math.Tan, args[0].(Float)), true
	case "math.Cos":
		return e.libm("cos", math.Cos, args[0].(Float)), true
	case "math.Sin":
		return e.libm("sin", math.Sin, args[0].(Float)), true
	case "math.Atan":
		return e.libm("atan", math.Atan, args[0].(Float)), true
	case "math.Sinh":
		return e.libm("sinh", math.Sinh, args[0].(Float)), true
	case "math.Acos":
		return e.libm("acos", math.Acos, args[0].(Float)), true
	case "math.Hypot":
		a, b := args[0].(Float), args[1].(Float)
		if a.IsC && b.IsC {
			return mkFloat(math.Hypot(a.C, b.C)), true
		}
		e.uf("uf_hypot", 2)
		return e.nmF(Float{Sym: "(uf_hypot " + e.fT(a) + " " + e.fT(b) + ")"}), true
	case "math.IsNaN":
		a := args[0].(Float)
		if a.IsC {
			return mkBool(a.C != a.C), true
		}
		if e.relaxed {
			return mkBool(false), true
		}
		return symBool("(fp.isNaN " + a.Sym + ")"), true
	case "math.IsInf":
		a := args[0].(Float)
		sg := args[1].(Int)
		if a.IsC && sg.IsC {
			return mkBool(math.IsInf(a.C, int(sg.sval()))), true
		}
		if sg.IsC && sg.sval() == 0 {
			return symBool("(fp.isInfinite " + a.T() + ")"), true
		}
		e.unsupported("math.IsInf with sign")
	case "math.Inf":
		return mkFloat(math.Inf(int(args[0].(Int).sval()))), true
	case "math.Float64bits":
		a := args[0].(Float)
		if a.IsC {
			return mkInt(64, false, math.Float64bits(a.C)), true
		}
		n := e.fresh("bits")
		e.declare(n, sortBV(64))
		e.sol.Send("(assert (= ((_ to_fp 11 53) " + n + ") " + a.Sym + "))")
		return symInt(64, false, n), true
	case "math.Float64frombits":
		a := args[0].(Int)
		if a.IsC {
			return mkFloat(math.Float64frombits(a.C)), true
		}
		return e.nmF(Float{Sym: "((_ to_fp 11 53) " + a.T() + ")"}), true
	case "math.Ldexp":
		a, k := args[0].(Float), args[1].(Int)
		if a.IsC && k.IsC {
			return mkFloat(math.Ldexp(a.C, int(k.sval()))), true
		}
		e.unsupported("math.Ldexp symbolic")

	// ----- strconv
	case "strconv.FormatInt":
		i := args[0].(Int)
		base := args[1].(Int)
		if !base.IsC {
			e.unsupported("FormatInt symbolic base")
		}
		switch base.sval() {
		case 10:
			return decStr(iConv(i, 64, true)), true
		case 4:
			if !e.provable(iCmp(">=", i, mkI64(0))) {
				e.unsupported("FormatInt(q,4) with possibly negative q")
			}
			return normStr([]Piece{{K: pQuat, I: i}}), true
		}
		if i.IsC {
			return lit(strconv.FormatInt(i.sval(), int(base.sval()))), true
		}
		e.unsupported("FormatInt base %d", base.sval())
	case "strconv.Itoa":
		return decStr(iConv(args[0].(Int), 64, true)), true
	case "strconv.ParseInt", "strconv.Atoi":
		if name == "strconv.ParseInt" {
			b, bs := args[1].(Int), args[2].(Int)
			if b.IsC && bs.IsC && b.sval() == 0 && bs.sval() == 64 {
				v, err := e.parseInt0(args[0].(Str))
				return Tuple{v, err}, true
			}
			if !b.IsC || !bs.IsC || b.sval() != 10 || bs.sval() != 64 {
				e.unsupported("ParseInt with base/bitSize other than 10/64 or 0/64")
			}
		}
		v, err := e.parseInt(args[0].(Str))
		return Tuple{v, err}, true

	// ----- strings
	case "strings.Split":
		s := args[0].(Str)
		sep := e.strArg(args[1], "strings.Split separator")
		var parts []Str
		switch sep {
		case "":
			parts = e.splitChars(s)
		default:
			if s.isLit() {
				for _, p := range strings.Split(s.litVal(), sep) {
					parts = append(parts, lit(p))
				}
			} else if sep == "/" {
				parts = s.splitSep("/")
			} else {
				e.unsupported("strings.Split of symbolic string by %q", sep)
			}
		}
		el := make([]Value, len(parts))
		for i, p := range parts {
			el[i] = p
		}
		return Slice{Arr: e.newObj(Array{E: el}, "strings.Split"), Len: len(el), Cap: len(el)}, true
	case "strings.Join":
		sl := args[0].(Slice)
		sep := args[1].(Str)
		var acc Str
		if sl.Arr != nil {
			arr := sl.Arr.v.(Array)
			for k := 0; k < sl.Len; k++ {
				if k > 0 {
					acc = strConcat(acc, sep)
				}
				acc = strConcat(acc, arr.E[sl.Off+k].(Str))
			}
		}
		return acc, true
	case "strings.ReplaceAll":
		s := args[0].(Str)
		old := e.strArg(args[1], "ReplaceAll pattern")
		nw := e.strArg(args[2], "ReplaceAll replacement")
		if s.isLit() {
			return lit(strings.ReplaceAll(s.litVal(), old, nw)), true
		}
		if old == "" {
			e.unsupported("ReplaceAll with empty pattern on symbolic string")
		}
		last := old[len(old)-1]
		if (last >= '0' && last <= '9') || last == '-' || last == '+' {
			e.unsupported("ReplaceAll pattern %q could end inside a symbolic number", old)
		}
		var ps []Piece
		for k, p := range s.P {
			if p.K == pLit {
				ps = append(ps, Piece{K: pLit, S: strings.ReplaceAll(p.S, old, nw)})
				continue
			}
			if k != len(s.P)-1 || (p.K != pDec && p.K != pQuat && p.K != pDigit) {
				e.unsupported("ReplaceAll on %s: symbolic piece not in final position", s)
			}
			ps = append(ps, p)
		}
		return normStr(ps), true
	case "strings.Count":
		a := args[0].(Str)
		sub := e.strArg(args[1], "strings.Count pattern")
		if a.isLit() {
			return mkI64(int64(strings.Count(a.litVal(), sub))), true
		}
		if sub == "/" {
			// symbolic pieces never contain the separator (see splitSep)
			return mkI64(int64(len(a.splitSep("/")) - 1)), true
		}
		e.unsupported("strings.Count(%s, %q)", a, sub)
	case "strings.SplitN":
		a := args[0].(Str)
		sep := e.strArg(args[1], "strings.SplitN separator")
		n := args[2].(Int)
		if !n.IsC {
			e.unsupported("strings.SplitN with a symbolic count")
		}
		var parts []Str
		if a.isLit() {
			for _, p := range strings.SplitN(a.litVal(), sep, int(n.sval())) {
				parts = append(parts, lit(p))
			}
			if strings.SplitN(a.litVal(), sep, int(n.sval())) == nil {
				return Slice{}, true
			}
		} else if sep == "/" {
			all := a.splitSep("/")
			k := int(n.sval())
			switch {
			case k == 0:
				return Slice{}, true
			case k < 0 || k >= len(all):
				parts = all
			default:
				parts = append(parts, all[:k-1]...)
				rest := all[k-1]
				for _, f := range all[k:] {
					rest = strConcat(strConcat(rest, lit("/")), f)
				}
				parts = append(parts, rest)
			}
		} else {
			e.unsupported("strings.SplitN of symbolic string by %q", sep)
		}
		el := make([]Value, len(parts))
		for i, p := range parts {
			el[i] = p
		}
		return Slice{Arr: e.newObj(Array{E: el}, "strings.SplitN"), Len: len(el), Cap: len(el)}, true
	case "strings.FieldsFunc":
		a := args[0].(Str)
		cl, ok := args[1].(Closure)
		if !ok || cl.Fn == nil {
			e.unsupported("strings.FieldsFunc with a non-closure predicate")
		}
		pred := func(r Int) Bool {
			v := e.call(cl.Fn, []Value{r}, cl.Binds)
			b, ok := v.(Bool)
			if !ok {
				e.unsupported("strings.FieldsFunc predicate result %T", v)
			}
			return b
		}
		var parts []Str
		if a.isLit() {
			var cur []rune
			flush := func() {
				if len(cur) > 0 {
					parts = append(parts, lit(string(cur)))
					cur = nil
				}
			}
			for _, r := range a.litVal() {
				b := pred(mkInt(32, true, uint64(uint32(r))))
				if !b.IsC {
					e.unsupported("strings.FieldsFunc predicate not concrete on a literal")
				}
				if b.C {
					flush()
				} else {
					cur = append(cur, r)
				}
			}
			flush()
		} else {
			// the predicate must be exactly "is the ID separator": decided by the solver for an arbitrary rune
			rn := e.fresh("rune")
			e.declare(rn, sortBV(32))
			r := symInt(32, true, rn)
			b := pred(r)
			if !e.provable(bEq(b, iCmp("==", r, mkInt(32, true, '/')))) {
				e.unsupported("strings.FieldsFunc on a symbolic string with a predicate other than r == '/'")
			}
			e.stubs["strings.FieldsFunc(s, f) on ID strings: f is shown (by the solver, for an arbitrary rune) to be r == '/'; then the result is Split(s, \"/\") without its empty fields"] = true
			for _, f := range a.splitSep("/") {
				if len(f.P) == 0 {
					continue
				}
				allTok := true
				empty := mkBool(true)
				for _, p := range f.P {
					if p.K != pTok {
						allTok = false
						break
					}
					empty = bAnd(empty, symBool(fmt.Sprintf("tok%d_empty", p.Tok)))
				}
				if allTok && e.decide(empty) {
					continue
				}
				parts = append(parts, f)
			}
		}
		el := make([]Value, len(parts))
		for i, p := range parts {
			el[i] = p
		}
		return Slice{Arr: e.newObj(Array{E: el}, "strings.FieldsFunc"), Len: len(el), Cap: len(el)}, true
	case "strings.Contains", "strings.HasPrefix", "strings.HasSuffix":
		a, b := args[0].(Str), args[1].(Str)
		if a.isLit() && b.isLit() {
			switch name {
			case "strings.Contains":
				return mkBool(strings.Contains(a.litVal(), b.litVal())), true
			case "strings.HasPrefix":
				return mkBool(strings.HasPrefix(a.litVal(), b.litVal())), true
			default:
				return mkBool(strings.HasSuffix(a.litVal(), b.litVal())), true
			}
		}
		e.unsupported("%s on symbolic string", name)

	// ----- fmt / errors: formatting is not the subject
	case "fmt.Sprintf", "fmt.Sprint", "fmt.Sprintln":
		if name == "fmt.Sprintf" {
			if r, ok := e.sprintfModel(args); ok {
				return r, true
			}
		}
		e.objCtr++
		e.stubs["fmt.Sprintf: opaque string"] = true
		return Str{P: []Piece{{K: pOpaque, Tok: e.objCtr}}}, true
	case "fmt.Errorf", "errors.New":
		e.stubs["fmt.Errorf/errors.New: fresh non-nil error"] = true
		return e.newErr(), true
	case "fmt.Println", "fmt.Printf", "fmt.Print":
		return Tuple{mkI64(0), Iface{}}, true

	// ----- sort
	case "sort.Ints", "slices.Sort[[]int64 int64]", "slices.Sort[[]int int]":
		sl := args[0].(Slice)
		if sl.Len > 8 {
			e.unsupported("%s on %d elements", name, sl.Len)
		}
		e.stubs["sort.Ints / slices.Sort on integers (n<=8): compare-exchange network"] = true
		if sl.Len > 1 {
			e.noteWrite(sl.Arr, "sort")
			arr := sl.Arr.v.(Array)
			for i := 0; i < sl.Len; i++ {
				for j := 0; j+1 < sl.Len-i; j++ {
					a, b := arr.E[sl.Off+j].(Int), arr.E[sl.Off+j+1].(Int)
					c := iCmp("<=", a, b)
					arr.E[sl.Off+j] = e.nmI(iIte(c, a, b))
					arr.E[sl.Off+j+1] = e.nmI(iIte(c, b, a))
				}
			}
		}
		return nil, true
	case "sort.Strings", "sort.Slice", "sort.SliceStable", "slices.Sort[[]string string]":
		sl, ok := args[0].(Slice)
		if !ok {
			if iv, isI := args[0].(Iface); isI { // sort.Slice takes interface{}
				sl, ok = iv.V.(Slice)
			}
		}
		if !ok {
			e.unsupported("%s on %T", name, args[0])
		}
		if sl.Len <= 1 {
			return nil, true
		}
		arr := sl.Arr.v.(Array)
		allLit := name == "sort.Strings" || strings.HasPrefix(name, "slices.Sort")
		if allLit {
			for k := 0; k < sl.Len; k++ {
				if st, isS := arr.E[sl.Off+k].(Str); !isS || !st.isLit() {
					allLit = false
				}
			}
		}
		e.noteWrite(sl.Arr, "sort")
		if allLit {
			vals := make([]string, sl.Len)
			for k := range vals {
				vals[k] = arr.E[sl.Off+k].(Str).litVal()
			}
			sort.Strings(vals)
			for k := range vals {
				arr.E[sl.Off+k] = lit(vals[k])
			}
			return nil, true
		}
		if sl.Len > 4 {
			e.unsupported("%s on %d symbolic elements (the order model forks over all permutations, bound 4)", name, sl.Len)
		}
		// over-approximation: the sorted order of symbolic elements is SOME permutation (all are explored); a proof
		// covers the real order, a counterexample is replayed natively like any other
		e.stubs["sort.Strings / sort.Slice on symbolic elements (n<=4): the result is an arbitrary permutation of the elements (every permutation explored)"] = true
		rest := make([]Value, sl.Len)
		copy(rest, arr.E[sl.Off:sl.Off+sl.Len])
		var out []Value
		for len(rest) > 1 {
			pick := e.chooseFree(len(rest))
			out = append(out, rest[pick])
			rest = append(rest[:pick], rest[pick+1:]...)
		}
		out = append(out, rest[0])
		copy(arr.E[sl.Off:sl.Off+sl.Len], out)
		return nil, true
	case "sort.Float64s":
		sl := args[0].(Slice)
		if sl.Len > 8 {
			e.unsupported("sort.Float64s on %d elements", sl.Len)
		}
		e.stubs["sort.Float64s (n<=8): compare-exchange network, NaN-free input"] = true
		if sl.Len > 1 {
			e.noteWrite(sl.Arr, "sort")
			arr := sl.Arr.v.(Array)
			for i := 0; i < sl.Len; i++ {
				for j := 0; j+1 < sl.Len-i; j++ {
					a, b := arr.E[sl.Off+j].(Float), arr.E[sl.Off+j+1].(Float)
					c := e.fCmpX("<=", a, b)
					arr.E[sl.Off+j] = e.fIteX(c, a, b)
					arr.E[sl.Off+j+1] = e.fIteX(c, b, a)
				}
			}
		}
		return nil, true
	}
	if r, ok := e.thirdParty(fn, name, args); ok {
		return r, true
	}
	return nil, false
}

// parseInt models strconv.ParseInt(s,10,64) / Atoi on the ID-string domain.
func (e *Exec) parseInt(s Str) (Value, Value) {
	if s.isLit() {
		v, err := strconv.ParseInt(s.litVal(), 10, 64)
		if err != nil {
			return mkI64(v), e.newErr()
		}
		return mkI64(v), Iface{}
	}
	if len(s.P) != 1 {
		e.unsupported("ParseInt on composite string %s", s)
	}
	p := s.P[0]
	switch p.K {
	case pDec:
		return p.I, Iface{}
	case pTok:
		t := p.Tok
		ok := symBool(fmt.Sprintf("(and tok%d_isint (not tok%d_ovf))", t, t))
		// no fork here: the error is nil exactly when the token is an in-range integer; the value is
		// the parsed number, the clamped bound on a range error, 0 on a syntax error
		if !e.tokOvfAx[t] {
			e.tokOvfAx[t] = true
			e.sol.Send(fmt.Sprintf("(assert (=> tok%d_ovf (or (= tok%d_val #x7fffffffffffffff) (= tok%d_val #x8000000000000000))))", t, t, t))
		}
		val := e.nmI(iIte(symBool(fmt.Sprintf("tok%d_isint", t)), symInt(64, true, fmt.Sprintf("tok%d_val", t)), mkI64(0)))
		e.objCtr++
		return val, Iface{T: symErrType, V: SymErr{id: e.objCtr}, MaybeNil: &ok}
	case pDigit:
		return iConv(p.I, 64, true), Iface{}
	}
	e.unsupported("ParseInt on %s", s)
	return nil, nil
}

// parseInt0 models strconv.ParseInt(s,0,64) on the ID-string domain.  Canonical decimal texts parse as in
// base 10; every other text (leading zeros, signs, prefixes, underscores, non-integers) gets a free
// "base-0 integer" flag and value, so that texts such as "0x1f" — integers only under base 0 — are within
// reach of the solver; synthToken renders those as 0x-literals, and any model is replayed natively before
// it is reported.
func (e *Exec) parseInt0(s Str) (Value, Value) {
	if s.isLit() {
		v, err := strconv.ParseInt(s.litVal(), 0, 64)
		if err != nil {
			return mkI64(v), e.newErr()
		}
		return mkI64(v), Iface{}
	}
	if len(s.P) != 1 {
		e.unsupported("ParseInt base 0 on composite string %s", s)
	}
	p := s.P[0]
	switch p.K {
	case pDec:
		return p.I, Iface{}
	case pDigit:
		return iConv(p.I, 64, true), Iface{}
	case pTok:
		t := p.Tok
		if !e.tokB0[t] {
			e.tokB0[t] = true
			e.declare(fmt.Sprintf("tok%d_b0int", t), "Bool")
			e.declare(fmt.Sprintf("tok%d_b0val", t), sortBV(64))
			e.sol.Send(fmt.Sprintf("(assert (=> tok%d_canon (and tok%d_b0int (= tok%d_b0val tok%d_val))))", t, t, t, t))
			e.sol.Send(fmt.Sprintf("(assert (=> (or tok%d_empty tok%d_ovf) (not tok%d_b0int)))", t, t, t))
			for o := range e.tokB0 {
				if o == t {
					continue
				}
				e.sol.Send(fmt.Sprintf("(assert (=> (= tok%d_id tok%d_id) (and (= tok%d_b0int tok%d_b0int) (= tok%d_b0val tok%d_b0val))))", t, o, t, o, t, o))
				e.sol.Send(fmt.Sprintf("(assert (=> (and tok%d_b0int tok%d_b0int (not tok%d_isint) (not tok%d_isint) (= tok%d_b0val tok%d_b0val)) (= tok%d_id tok%d_id)))", t, o, t, o, t, o, t, o))
			}
		}
		ok := symBool(fmt.Sprintf("tok%d_b0int", t))
		val := e.nmI(iIte(ok, symInt(64, true, fmt.Sprintf("tok%d_b0val", t)), mkI64(0)))
		e.objCtr++
		return val, Iface{T: symErrType, V: SymErr{id: e.objCtr}, MaybeNil: &ok}
	}
	e.unsupported("ParseInt base 0 on %s", s)
	return nil, nil
}

// splitChars models strings.Split(s, "") for literals and base-4 renderings.
func (e *Exec) splitChars(s Str) []Str {
	if s.isLit() {
		var out []Str
		for _, p := range strings.Split(s.litVal(), "") {
			out = append(out, lit(p))
		}
		return out
	}
	if len(s.P) == 1 && s.P[0].K == pQuat {
		q := s.P[0].I
		// number of base-4 digits: fork over the feasible counts 1..32
		nd := 0
		for k := 1; k <= 32; k++ {
			var c Bool
			if k == 32 {
				c = mkBool(true)
			} else {
				c = iCmp("<", q, mkI64(int64(1)<<uint(2*k)))
			}
			if e.decide(c) {
				nd = k
				break
			}
		}
		if nd == 0 {
			nd = 32
		}
		out := make([]Str, nd)
		for j := 0; j < nd; j++ {
			sh := uint64(2 * (nd - 1 - j))
			d := e.nmI(iBin("&", iShift(false, q, mkInt(64, false, sh)), mkI64(3)))
			out[j] = normStr([]Piece{{K: pDigit, I: d}})
		}
		return out
	}
	e.unsupported("strings.Split(%s, \"\")", s)
	return nil
}

// ---------- harness primitives

func (e *Exec) addInput(in *InputVar) { e.inputs = append(e.inputs, in) }

func (e *Exec) harnessPrim(name string, args []Value) (Value, bool) {
	if strings.HasPrefix(name, "vR") {
		if r, ok := e.realPrim(name, args); ok {
			return r, true
		}
	}
	switch name {
	case "vCase":
		n := e.strArg(args[0], "vCase name")
		v, ok := e.cases[n]
		if !ok {
			e.unsupported("vCase(%q): no such case parameter", n)
		}
		return mkI64(v), true
	case "vKnown":
		id := e.strArg(args[0], "known-finding id")
		if e.known[id] {
			return args[1], true
		}
		return mkBool(false), true
	case "vTraceInt", "vTraceStr", "vTraceBool", "vTraceFloat":
		lbl := e.strArg(args[0], "trace label")
		switch v := args[1].(type) {
		case Int:
			if v.IsC {
				e.traceOut = append(e.traceOut, fmt.Sprintf("%s=%d", lbl, v.sval()))
			}
		case Str:
			if v.isLit() {
				e.traceOut = append(e.traceOut, fmt.Sprintf("%s=%q", lbl, v.litVal()))
			}
		case Bool:
			if v.IsC {
				e.traceOut = append(e.traceOut, fmt.Sprintf("%s=%v", lbl, v.C))
			}
		case Float:
			if v.IsC {
				e.traceOut = append(e.traceOut, fmt.Sprintf("%s=0x%016x", lbl, math.Float64bits(v.C)))
			}
		}
		return nil, true
	case "vNondetInt64":
		n := e.strArg(args[0], "nondet name")
		if e.concrete != nil {
			v, _ := strconv.ParseInt(e.concrete[n], 10, 64)
			return mkI64(v), true
		}
		sym := "in_" + sanitize(n)
		e.declare(sym, sortBV(64))
		e.addInput(&InputVar{Name: n, Kind: "int64", Sym: sym})
		if false && e.relaxed && !e.opaque {
			// (disabled: the int2bv link makes z3 slow) an SMT Int twin of the input keeps integer reasoning out of the bit-vector theory
			tw := sym + "_i"
			e.declare(tw, "Int")
			e.sol.Send(fmt.Sprintf("(assert (and (<= (- 9223372036854775808) %s) (<= %s 9223372036854775807) (= %s ((_ int2bv 64) %s))))", tw, tw, sym, tw))
			return Int{W: 64, Signed: true, Sym: sym, RI: tw}, true
		}
		return symInt(64, true, sym), true
	case "vNondetFloat64":
		n := e.strArg(args[0], "nondet name")
		if e.concrete != nil {
			sv := e.concrete[n]
			if strings.HasPrefix(sv, "0x") {
				b, _ := strconv.ParseUint(sv[2:], 16, 64)
				return mkFloat(math.Float64frombits(b)), true
			}
			f, _ := strconv.ParseFloat(sv, 64)
			return mkFloat(f), true
		}
		sym := "in_" + sanitize(n)
		if e.relaxed {
			e.declare(sym, "Real")
			e.addInput(&InputVar{Name: n, Kind: "real", Sym: sym})
			return Float{Sym: sym}, true
		}
		e.declare(sym, sortBV(64))
		e.addInput(&InputVar{Name: n, Kind: "float64", Sym: sym})
		return Float{Sym: "((_ to_fp 11 53) " + sym + ")"}, true
	case "vFloatRange": // vFloatRange(f, lo, hi): checks lo <= f <= hi and lets the relaxed encoding use the enclosure
		f := args[0].(Float)
		lo, hi := args[1].(Float), args[2].(Float)
		if !lo.IsC || !hi.IsC {
			e.unsupported("vFloatRange needs concrete bounds")
		}
		if e.concrete != nil || f.IsC {
			return f, true
		}
		e.obligation(bAnd(e.fCmpX("<=", lo, f), e.fCmpX("<=", f, hi)), "declared float enclosure holds", "ghost")
		if e.relaxed {
			f.HasIv, f.Lo, f.Hi = true, lo.C, hi.C
		}
		return f, true
	case "vNondetBool":
		n := e.strArg(args[0], "nondet name")
		if e.concrete != nil {
			return mkBool(e.concrete[n] == "true"), true
		}
		sym := "in_" + sanitize(n)
		e.declare(sym, "Bool")
		e.addInput(&InputVar{Name: n, Kind: "bool", Sym: sym})
		return symBool(sym), true
	case "vChoice":
		n := e.strArg(args[0], "choice name")
		cnt := args[1].(Int)
		if !cnt.IsC || cnt.sval() < 1 {
			e.unsupported("vChoice needs a concrete positive count")
		}
		if e.concrete != nil {
			v, _ := strconv.ParseInt(e.concrete[n], 10, 64)
			if v < 0 || v >= cnt.sval() {
				v = 0
			}
			return mkI64(v), true
		}
		k := e.chooseFree(int(cnt.sval()))
		e.addInput(&InputVar{Name: n, Kind: "choice", Const: fmt.Sprint(k)})
		return mkI64(int64(k)), true
	case "vNondetString", "vNondetStringN":
		n := e.strArg(args[0], "nondet name")
		mx := args[1].(Int)
		if !mx.IsC {
			e.unsupported("vNondetString needs a concrete field bound")
		}
		if e.concrete != nil {
			return lit(e.concrete[n]), true
		}
		k := int(mx.sval())
		if name == "vNondetString" {
			k = e.chooseFree(int(mx.sval())) + 1
		}
		in := &InputVar{Name: n, Kind: "string"}
		var ps []Piece
		for j := 0; j < k; j++ {
			t := e.newToken()
			in.Toks = append(in.Toks, t)
			if j > 0 {
				ps = append(ps, Piece{K: pLit, S: "/"})
			}
			ps = append(ps, Piece{K: pTok, Tok: t})
		}
		e.addInput(in)
		return Str{P: ps}, true
	case "vAssume":
		e.assumeN++
		c := args[0].(Bool)
		if c.IsC {
			if !c.C {
				panic(pathEnd{"assume-dead", fmt.Sprintf("assumption #%d false", e.assumeN)})
			}
			return nil, true
		}
		if e.pos >= len(e.prefix) && e.check(c.Sym) == RUnsat {
			panic(pathEnd{"assume-dead", fmt.Sprintf("assumption #%d infeasible", e.assumeN)})
		}
		e.assert(c)
		return nil, true
	case "vAssert":
		if e.concrete != nil {
			if c := args[0].(Bool); c.IsC {
				if !c.C {
					e.traceOut = append(e.traceOut, "FAIL "+e.strArg(args[1], "assert label"))
				}
				return nil, true
			}
		}
		e.obligation(args[0].(Bool), e.strArg(args[1], "assert label"), "assert")
		return nil, true
	case "vReach":
		lbl := e.strArg(args[0], "reach label")
		if e.unkFeas > 0 {
			if r := e.check("true"); r != RSat {
				return nil, true
			}
		}
		e.stats.Reached[lbl]++
		return nil, true
	case "vFrameBegin":
		e.epoch++
		e.frameOn = true
		e.frameLbl = e.strArg(args[0], "frame label")
		return nil, true
	case "vFrameEnd":
		e.frameOn = false
		return nil, true
	case "vFrameAllow":
		if p, ok := args[0].(Ptr); ok && p.Obj != nil {
			e.allow[p.Obj] = true
		}
		return nil, true
	case "vMapOrders":
		c := args[0].(Bool)
		e.mapOrder = c.IsC && c.C
		return nil, true
	case "vUnwind":
		e.unwind = int(args[0].(Int).sval())
		return nil, true
	case "vSymbolic":
		return mkBool(true), true

	// ghost wide integers
	case "vW":
		return wideFromInt(args[0].(Int)), true
	case "vWB": // vWB(x, bits): x with the stated magnitude bound |x| <= 2^bits (checked once)
		x, b := args[0].(Int), args[1].(Int)
		if !b.IsC || b.sval() < 0 || b.sval() > 62 {
			e.unsupported("vWB needs a concrete bit bound 0..62")
		}
		lim := int64(1) << uint(b.sval())
		e.obligation(bAnd(iCmp(">=", x, mkI64(-lim)), iCmp("<=", x, mkI64(lim))), "ghost operand within its declared magnitude", "ghost")
		w := wideFromInt(x)
		if !w.IsC {
			w.Bits = int(b.sval()) + 1
		}
		return w, true
	case "vWAdd", "vWSub":
		a, b := args[0].(Wide), args[1].(Wide)
		if a.IsC && b.IsC {
			if name == "vWAdd" {
				return mkWide(new(big.Int).Add(a.C, b.C)), true
			}
			return mkWide(new(big.Int).Sub(a.C, b.C)), true
		}
		op := "bvadd"
		if name == "vWSub" {
			op = "bvsub"
		}
		r := e.nmW(Wide{Sym: "(" + op + " " + a.T() + " " + b.T() + ")"})
		if a.Bits > 0 && b.Bits > 0 {
			r.Bits = a.Bits
			if b.Bits > r.Bits {
				r.Bits = b.Bits
			}
			r.Bits++
		}
		if r.Bits == 0 || r.Bits >= wideW-1 {
			r.Bits = 0
			var ov string
			if name == "vWAdd" {
				ov = fmt.Sprintf("(not (and (= %s %s) (not (= %s %s))))", msb(a.T()), msb(b.T()), msb(r.T()), msb(a.T()))
			} else {
				ov = fmt.Sprintf("(not (and (not (= %s %s)) (not (= %s %s))))", msb(a.T()), msb(b.T()), msb(r.T()), msb(a.T()))
			}
			e.obligation(symBool(ov), "ghost integer overflow in "+name, "ghost")
		}
		return r, true
	case "vWShl":
		a, k := args[0].(Wide), args[1].(Int)
		if a.IsC && k.IsC {
			if k.sval() < 0 || k.sval() > 160 {
				e.unsupported("vWShl count out of range")
			}
			return mkWide(new(big.Int).Lsh(a.C, uint(k.sval()))), true
		}
		kk := fmt.Sprintf("((_ zero_extend %d) %s)", wideW-64, k.T())
		r := e.nmW(Wide{Sym: "(bvshl " + a.T() + " " + kk + ")"})
		if k.IsC && k.sval() >= 0 && a.Bits > 0 && a.Bits+int(k.sval()) < wideW-1 {
			r.Bits = a.Bits + int(k.sval())
			return r, true
		}
		e.obligation(bAnd(iCmp(">=", k, mkI64(0)), iCmp("<", k, mkI64(wideW))), "ghost shift count in range", "ghost")
		e.obligation(symBool("(= (bvashr "+r.T()+" "+kk+") "+a.T()+")"), "ghost integer overflow in vWShl", "ghost")
		return r, true
	case "vWShr": // floor division by 2^k
		a, k := args[0].(Wide), args[1].(Int)
		if a.IsC && k.IsC {
			if k.sval() < 0 {
				e.unsupported("vWShr negative count")
			}
			return mkWide(new(big.Int).Rsh(a.C, uint(k.sval()))), true
		}
		kk := fmt.Sprintf("((_ zero_extend %d) %s)", wideW-64, k.T())
		if !k.IsC || k.sval() < 0 {
			e.obligation(iCmp(">=", k, mkI64(0)), "ghost shift count non-negative", "ghost")
		}
		r := e.nmW(Wide{Sym: "(bvashr " + a.T() + " " + kk + ")"})
		r.Bits = a.Bits
		if k.IsC && a.Bits > 0 {
			r.Bits = a.Bits - int(k.sval())
			if r.Bits < 1 {
				r.Bits = 1
			}
		}
		return r, true
	case "vWLt", "vWLe", "vWEq":
		a, b := args[0].(Wide), args[1].(Wide)
		if a.IsC && b.IsC {
			c := a.C.Cmp(b.C)
			switch name {
			case "vWLt":
				return mkBool(c < 0), true
			case "vWLe":
				return mkBool(c <= 0), true
			default:
				return mkBool(c == 0), true
			}
		}
		switch name {
		case "vWLt":
			return symBool("(bvslt " + a.T() + " " + b.T() + ")"), true
		case "vWLe":
			return symBool("(bvsle " + a.T() + " " + b.T() + ")"), true
		default:
			return symBool("(= " + a.T() + " " + b.T() + ")"), true
		}
	case "vWFits64":
		a := args[0].(Wide)
		if a.IsC {
			return mkBool(a.C.IsInt64()), true
		}
		return symBool(fmt.Sprintf("(= ((_ sign_extend %d) ((_ extract 63 0) %s)) %s)", wideW-64, a.T(), a.T())), true
	case "vWTo64":
		a := args[0].(Wide)
		if a.IsC {
			return mkI64(a.C.Int64()), true
		}
		return e.nmI(symInt(64, true, "((_ extract 63 0) "+a.T()+")")), true
	}
	return nil, false
}

func msb(t string) string { return fmt.Sprintf("((_ extract %d %d) %s)", wideW-1, wideW-1, t) }

func sanitize(s string) string {
	var sb strings.Builder
	for _, c := range s {
		if (c >= 'a' && c <= 'z') || (c >= 'A' && c <= 'Z') || (c >= '0' && c <= '9') || c == '_' {
			sb.WriteRune(c)
		} else {
			sb.WriteString(fmt.Sprintf("_%x_", c))
		}
	}
	return sb.String()
}

// thirdParty: stubs for code outside the repository.  Each is part of the claim (Exec.stubs).
var crsMarkerType = types.NewNamed(types.NewTypeName(0, nil, "crs", nil), types.NewStruct(nil, nil), nil)

var epsgCodes []int64 // filled by loadProgram from the real wgs84 source (epsg.go)

func (e *Exec) thirdParty(fn *ssa.Function, name string, args []Value) (Value, bool) {
	switch name {
	case "github.com/wroge/wgs84.EPSG":
		e.stubs["wgs84.EPSG(): fresh repository object, effect-free"] = true
		return Ptr{Obj: e.newObj(OpaqueV{"wgs84 repository"}, "wgs84.EPSG()")}, true
	case "(*github.com/wroge/wgs84.Repository).Code":
		c := args[1].(Int)
		if !c.IsC {
			c = e.concretize(iConv(c, 64, true), "EPSG code", 64)
		}
		e.stubs["(*wgs84.Repository).Code(c): nil iff c is not in the EPSG table read from the real library's source"] = true
		known := false
		for _, k := range epsgCodes {
			if k == c.sval() {
				known = true
			}
		}
		if !known {
			return Iface{}, true
		}
		return Iface{T: crsMarkerType, V: mkI64(c.sval())}, true
	case "github.com/wroge/wgs84.SafeTransform":
		e.stubs["wgs84.SafeTransform(from,to)(a,b,c): error iff from or to is nil or an uninterpreted out-of-bounds predicate of (from,to,a,b,c) holds; otherwise three uninterpreted functions of (from,to,a,b,c)"] = true
		return Closure{Stub: "wgs84tx", Binds: []Value{args[0], args[1]}}, true
	}
	return nil, false
}

func (e *Exec) stubCall(cl Closure, args []Value) Value {
	switch cl.Stub {
	case "wgs84tx":
		from := e.concreteIface(cl.Binds[0].(Iface))
		to := e.concreteIface(cl.Binds[1].(Iface))
		zero := mkFloat(0)
		if from.T == nil || to.T == nil {
			return Tuple{zero, zero, zero, e.newErr()}
		}
		if !e.relaxed {
			e.unsupported("the wgs84 transform stub needs the real-sorted (relaxed / structure-only) float encoding")
		}
		tag := fmt.Sprintf("%d_%d", from.V.(Int).sval(), to.V.(Int).sval())
		a, b, c := e.fT(args[0].(Float)), e.fT(args[1].(Float)), e.fT(args[2].(Float))
		decl := func(n, sort string) {
			if !e.ufs[n] {
				e.ufs[n] = true
				e.sol.Send("(declare-fun " + n + " (Real Real Real) " + sort + ")")
			}
		}
		decl("tx_oob_"+tag, "Bool")
		oob := symBool("(tx_oob_" + tag + " " + a + " " + b + " " + c + ")")
		if e.decide(oob) {
			return Tuple{zero, zero, zero, e.newErr()}
		}
		var out Tuple
		for _, ax := range []string{"x", "y", "z"} {
			n := "tx_" + ax + "_" + tag
			decl(n, "Real")
			out = append(out, e.nmR(Float{Sym: "(" + n + " " + a + " " + b + " " + c + ")"}))
		}
		return append(out, Iface{})
	}
	e.unsupported("stub %s", cl.Stub)
	return nil
}

// sprintfModel renders fmt.Sprintf exactly when the format is a literal that uses only %d, %s, %v (on integers and
// strings) and %%, without flags or widths; everything else stays an opaque string.
func (e *Exec) sprintfModel(args []Value) (Str, bool) {
	f, ok := args[0].(Str)
	if !ok || !f.isLit() {
		return Str{}, false
	}
	var vals []Value
	if sl, ok := args[1].(Slice); ok && sl.Arr != nil {
		arr := sl.Arr.v.(Array)
		for k := 0; k < sl.Len; k++ {
			vals = append(vals, arr.E[sl.Off+k])
		}
	}
	format := f.litVal()
	var out Str
	ai := 0
	for i := 0; i < len(format); i++ {
		c := format[i]
		if c != '%' {
			out = strConcat(out, lit(string(c)))
			continue
		}
		if i+1 >= len(format) {
			return Str{}, false
		}
		i++
		verb := format[i]
		if verb == '%' {
			out = strConcat(out, lit("%"))
			continue
		}
		if verb != 'd' && verb != 's' && verb != 'v' {
			return Str{}, false
		}
		if ai >= len(vals) {
			return Str{}, false
		}
		iv, ok := vals[ai].(Iface)
		ai++
		if !ok {
			return Str{}, false
		}
		switch v := iv.V.(type) {
		case Int:
			if verb == 's' || (!v.Signed && v.W == 64) {
				return Str{}, false
			}
			if b, isB := iv.T.Underlying().(*types.Basic); !isB || b.Info()&types.IsInteger == 0 {
				return Str{}, false
			}
			out = strConcat(out, decStr(iConv(v, 64, true)))
		case Str:
			if verb == 'd' {
				return Str{}, false
			}
			out = strConcat(out, v)
		default:
			return Str{}, false
		}
	}
	if ai != len(vals) {
		return Str{}, false
	}
	e.stubs["fmt.Sprintf with a literal format of %d/%s/%v verbs on integers and strings: rendered exactly; any other use: opaque string"] = true
	return out, true
}
