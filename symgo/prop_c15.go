package main

func init() {
	props["C15"] = &propDef{
		info: PropInfo{
			Bounds: []string{
				"ID arguments: every string with 1..7 '/'-separated fields, each field an arbitrary separator-free text (token model: integer / non-integer / overflowing / non-canonical / empty chosen by the solver); alone, after and before a well-formed ID",
				"zoom and layer arguments: every int64; longitude/altitude: every float64 except NaN (exact IEEE); latitude: every real in [-1000,1000] in the relaxed encoding with the acceptance edge decided up to 1e-10 (|lat| <= 85.0511287797 accepted, >= 85.0511287800 refused)",
				"numeric fields of malformed IDs: zoom fields 0..3, index fields within +-2^36 (+-8 in the quadkey converters) when they are integers at all",
			},
			Outside:     []string{"latitudes between 85.0511287797 and 85.0511287800 (the accept/refuse edge itself: x1e10 and /1e10 in exact IEEE arithmetic did not finish on any solver)", "the corridor query GetExtendedSpatialIdsWithinRadiusOfLine on proper segments (see C06/C14); its argument checks (negative radius, zooms, nil points) are covered on the degenerate one-point segment, and its clearance-fitting helper's argument checks are covered", "strings with more than 7 fields (the code compares the arity with 4/5 and indexes constants <= 4 only)", "well-formed IDs whose zoom fields are outside 0..35 (the library documents unbounded memory use there)"},
			Assumptions: []string{"token model of strings (DESIGN §2.3); strconv.ParseInt/Atoi accept exactly the texts the model marks as in-range integers"},
		},
		insts: func(tier string) []*Instance {
			var is []*Instance
			for pos := 0; pos <= 2; pos++ {
				for fn := 0; fn <= 1; fn++ {
					is = append(is, mk("integrate", "VerifC15IntegrateExt", cs("pos", pos, "fn", fn)), mk("integrate", "VerifC15IntegrateSpatial", cs("pos", pos, "fn", fn)))
				}
			}
			for fn := 0; fn <= 3; fn++ {
				is = append(is, mk("integrate", "VerifC15IntegrateZoom", cs("fn", fn)))
			}
			is = append(is, mk("operated", "VerifC15Shift", nil), mk("operated", "VerifC15Layers", nil))
			for _, k := range []int{6, 8, 26} {
				is = append(is, mk("operated", "VerifC15Neighbours", cs("kind", k)))
			}
			for side := 0; side <= 2; side++ {
				for arr := 0; arr <= 2; arr++ {
					if side == 2 && arr == 2 {
						continue
					}
					is = append(is, mk("detector", "VerifC15OverlapExt", cs("side", side, "arr", arr)), mk("detector", "VerifC15OverlapSpatial", cs("side", side, "arr", arr)))
				}
			}
			for fn := 0; fn <= 2; fn++ {
				for pos := 0; pos <= 2; pos++ {
					is = append(is, mk("transform", "VerifC15KeysMalformed", cs("fn", fn, "pos", pos)))
				}
				is = append(is, mk("transform", "VerifC15KeysZoom", cs("fn", fn)))
			}
			is = append(is, mk("transform", "VerifC15FromKeysZoom", cs("which", 0)), mk("transform", "VerifC15FromKeysZoom", cs("which", 1)))
			is = append(is, mk("transform", "VerifC15Tile", nil), mk("transform", "VerifC15TileSetters", nil), mk("transform", "VerifC15TileConvertZoom", nil))
			for _, in := range is {
				in.Unwind = 40
			}
			for w := 0; w <= 1; w++ {
				in := mk("transform", "VerifC15Clearance", cs("which", w))
				in.Solver = CVC5
				in.Unwind = 40
				is = append(is, in)
			}
			for w := 0; w <= 2; w++ {
				for skip := 0; skip <= 1; skip++ {
					in := mk("transform", "VerifC15Corridor", cs("which", w, "skip", skip))
					in.Solver = CVC5
					in.Unwind = 40
					is = append(is, in)
				}
			}
			lonI := mk("common/object", "VerifC15Lon", nil)
			lonI.Solver = CVC5
			latI := mk("common/object", "VerifC15Lat", nil)
			latI.Relaxed = true
			latI.Timeout = 60000
			is = append(is, lonI, latI)
			for w := 0; w <= 1; w++ {
				is = append(is, mk("shape", "VerifC15PointsZoom", cs("which", w)))
			}
			for w := 0; w <= 3; w++ {
				in := mk("shape", "VerifC15PointOnID", cs("which", w))
				in.Unwind = 40
				is = append(is, in)
			}
			return is
		},
		tv: func(tier string, seed int64) []*TV {
			var tvs []*TV
			for _, s := range []string{"1/2", "a/b/c/d/e", "3/1/2/3", "3/1/2/3/99999999999999999999", "", "//// ", "3/+1/2/3/-1/7", "3/1/2/3/ 1"} {
				tvs = append(tvs, &TV{Harness: "VerifC15IntegrateExt", PkgDir: "integrate", Unwind: 40, Case: cs("pos", 1, "fn", 0), Inputs: map[string]string{"s": s}})
				tvs = append(tvs, &TV{Harness: "VerifC15Shift", PkgDir: "operated", Unwind: 40, Inputs: map[string]string{"s": s, "dx": "1", "dy": "0", "dv": "-1"}})
				tvs = append(tvs, &TV{Harness: "VerifC15OverlapExt", PkgDir: "detector", Unwind: 40, Case: cs("side", 0, "arr", 0), Inputs: map[string]string{"s": s}})
			}
			return tvs
		},
	}
}
