package main

func init() {
	props["C08"] = &propDef{
		info: PropInfo{
			Bounds: []string{
				"6/8/26 stencils: horizontal zoom h case-split (quick: 0,1,2,3,12,25,35; thorough: 0..35), voxel indices symbolic over the whole grid including the wrapping edges",
				"N-layer query: 1 voxel with (H,V) in {0,1}^2 and (2,0),(0,2) in thorough, and horizontal layer counts 2..4 at h = 0, 1 (offsets of a world width and more); 2 voxels with (H,V) in {(1,0),(0,1)}; h in {0,1,2,3,20}",
			},
			Outside: []string{"layer counts above 2 (above 4 at h <= 1)", "lists of more than 2 voxels", "|f| >= 2^40"},
		},
		insts: func(tier string) []*Instance {
			var is []*Instance
			hs := []int{0, 1, 2, 3, 12, 25, 35}
			if tier == "thorough" {
				hs = nil
				for h := 0; h <= 35; h++ {
					hs = append(hs, h)
				}
			}
			for _, h := range hs {
				for _, k := range []int{6, 8, 26} {
					in := mk("operated", "VerifC08Stencil", cs("h", h, "kind", k))
					in.Unwind = 40
					is = append(is, in)
					if k != 26 || tier == "thorough" || h <= 2 {
						in = mk("operated", "VerifC08Symmetry", cs("h", h, "kind", k))
						in.Unwind = 40
						is = append(is, in)
					}
				}
			}
			for _, h := range []int{0, 1, 2, 3, 20} {
				hv := [][2]int{{0, 0}, {1, 0}, {0, 1}, {1, 1}}
				if tier == "thorough" {
					hv = append(hv, [2]int{2, 0}, [2]int{0, 2})
				}
				for _, p := range hv {
					in := mk("operated", "VerifC08Layers", cs("h", h, "H", p[0], "V", p[1], "n", 1))
					in.Unwind = 200
					is = append(is, in)
				}
				if h <= 1 {
					// offsets of a whole world width and more: layer counts 2..4 on the 1x1 and 2x2 grids
					for H := 2; H <= 4; H++ {
						if H == 2 && tier == "thorough" {
							continue // already in hv
						}
						in := mk("operated", "VerifC08Layers", cs("h", h, "H", H, "V", 0, "n", 1))
						in.Unwind = 400
						is = append(is, in)
					}
				}
				for _, p := range [][2]int{{1, 0}, {0, 1}} {
					if tier == "quick" && (h > 2 || (p[0] == 1 && h == 2)) {
						continue
					}
					in := mk("operated", "VerifC08Layers", cs("h", h, "H", p[0], "V", p[1], "n", 2))
					in.Unwind = 200
					is = append(is, in)
				}
			}
			return is
		},
		tv: func(tier string, seed int64) []*TV {
			r := &rng{uint64(seed) + 8}
			var tvs []*TV
			for i := 0; i < 6; i++ {
				h := r.rangeI(0, 10)
				n := int64(1) << h
				k := []int64{6, 8, 26}[i%3]
				tvs = append(tvs, &TV{Harness: "VerifC08Stencil", PkgDir: "operated", Unwind: 40, Case: cs("h", h, "kind", k), Inputs: map[string]string{
					"x": i2s(r.rangeI(0, n-1)), "y": i2s(r.rangeI(0, n-1)), "f": i2s(r.rangeI(-5, 5)), "v": i2s(r.rangeI(0, 35)), "dx": "1", "dy": "0", "dv": "0"}})
			}
			tvs = append(tvs, &TV{Harness: "VerifC08Layers", PkgDir: "operated", Unwind: 200, Case: cs("h", 3, "H", 1, "V", 1, "n", 1), Inputs: map[string]string{"x0": "7", "y0": "0", "f0": "-1", "v": "4", "dx": "1", "dy": "-1", "dv": "1", "k": "0"}})
			return tvs
		},
	}
}
