package main

// Symbolic executor over go/ssa.  Paths are explored by re-execution: a path is a
// sequence of decisions; a new symbolic branch beyond the current prefix is checked
// for feasibility with the solver and the alternative is queued.

import (
	"fmt"
	"go/constant"
	"go/token"
	"go/types"
	"math"
	"math/big"
	"os"
	"sort"
	"strings"
	"sync"
	"time"

	"golang.org/x/tools/go/ssa"
)

// ---------- heap values

type Object struct {
	id    int
	v     Value
	epoch int
	desc  string
	glob  bool
}

type Ptr struct {
	Obj  *Object // nil => nil pointer
	Path []int
}

type Slice struct {
	Arr           *Object // holds Array; nil => nil slice
	Off, Len, Cap int
}

type Struct struct{ F []Value }

// Array: E holds the elements; O, when present, is an ordered overlay of writes at symbolic
// (or, once an overlay exists, any) indices for non-scalar element types (radix-tree child
// tables): a load walks it newest-first asking "same index?" (hit/miss), so one tree descent
// forks linearly in the depth instead of by the fan-out.
type Array struct {
	E []Value
	O *overlay
}

type symWrite struct {
	Idx Int
	Val Value
}

type overlay struct{ w []symWrite }

type MapEntry struct{ K, V Value }
type MapObj struct {
	id      int
	entries []*MapEntry
	epoch   int
}
type MapV struct{ M *MapObj } // M nil => nil map

type Iface struct {
	T types.Type // nil => nil interface
	V Value
	// MaybeNil, when set, makes the interface nil exactly when the condition holds
	// (result of merging a nil and a non-nil error at a join).
	MaybeNil *Bool
}

type Closure struct {
	Fn    *ssa.Function
	Binds []Value
	Stub  string // non-empty: a modelled third-party function value (see thirdParty / stubCall)
}

type Tuple []Value

type SymErr struct{ id int } // opaque non-nil error payload
type OpaqueV struct{ what string }

type mapIter struct {
	keys []Value
	vals []Value
	i    int
}

// ---------- decisions / path bookkeeping

type Decision struct {
	Val    bool
	Forced bool
	Aux    uint64
}

type pathEnd struct {
	status string // "done", "assume-dead", "unsupported", "unwind", "panic", "budget"
	msg    string
}

type InputVar struct {
	Name string // harness-level name
	Kind string // "int64","float64","bool","choice","string"
	Sym  string // smt constant (bv64 for ints and floats)
	// for strings: token ids of the fields
	Toks  []int
	Const string // for choices: concrete value once decided
}

type Violation struct {
	Harness string            `json:"harness"`
	Case    map[string]int64  `json:"case"`
	Label   string            `json:"label"`
	Kind    string            `json:"kind"` // assert | panic | frame | ghost
	Inputs  map[string]string `json:"inputs"`
	Where   string            `json:"where"`
}

type PathStats struct {
	Paths        int
	Instrs       int64
	Discharged   int
	ConcreteOK   int
	Inconclusive []string
	Violations   []Violation
	Reached      map[string]int
	Ended        map[string]int
	Funcs        map[string]string
	Obligations  []string
}

type Exec struct {
	prog    *ssa.Program
	sol     *Solver
	prefix  []Decision
	pos     int
	trace   []Decision
	pending [][]Decision

	nameCtr     int
	objCtr      int
	tokCtr      int
	inputs      []*InputVar
	globals     map[*ssa.Global]*Object
	epoch       int
	frameOn     bool
	frameLbl    string
	allow       map[*Object]bool
	unwind      int
	cases       map[string]int64
	harness     string
	depth       int
	instrs      int64
	budget      int64
	stats       *PathStats
	mapOrder    bool
	unkFeas     int
	curFn       []*ssa.Function
	tokLitEq    map[string]Bool
	tokOvfAx    map[int]bool
	tokB0       map[int]bool // tokens on which ParseInt(_, 0, 64) was applied (base-0 attributes declared)
	assumeN     int
	ufs         map[string]bool
	roundMemo   map[string]Float // floor/ceil/trunc/round of an identical real term is the identical Int variable
	stubs       map[string]bool
	timeoutMs   int
	repoPrefix  string
	known       map[string]bool
	guard       *Bool             // inside an if-converted region: obligations hold under this guard
	concrete    map[string]string // translator-validation mode: concrete inputs
	traceOut    []string
	inInit      bool
	deadline    time.Time
	relaxed     bool // floats are reals with rounding-error terms (see relaxed.go)
	opaque      bool // structure-only: float operations are uninterpreted functions
	rerrArgs    []string
	noSubnormal bool // instance assumption: no non-zero subnormal result of a multiplication / division (inputs are 0 or >= 1e-200 in magnitude, constants moderate)
	relaxedUF   bool // rounding error as an uninterpreted function of the exact result (keeps repeated computations equal) instead of a fresh constant per operation
}

var dumpCtr int
var regionLog = os.Getenv("SYMGO_REGION") != ""

const nameThreshold = 120

func (e *Exec) fresh(prefix string) string {
	e.nameCtr++
	return fmt.Sprintf("%s!%d", prefix, e.nameCtr)
}

func (e *Exec) declare(name, sort string) {
	e.sol.Send("(declare-const " + name + " " + sort + ")")
}

func (e *Exec) assert(c Bool) {
	if c.IsC {
		if !c.C {
			panic(pathEnd{"assume-dead", "assert false"})
		}
		return
	}
	e.sol.Send("(assert " + c.Sym + ")")
}

func sortBV(w int) string { return fmt.Sprintf("(_ BitVec %d)", w) }

const sortFP = "(_ FloatingPoint 11 53)"

// nm names big terms so that shared sub-terms do not blow up the script.
func (e *Exec) nmI(i Int) Int {
	if i.IsC || len(i.Sym) < nameThreshold {
		return i
	}
	n := e.fresh("t")
	e.declare(n, sortBV(i.W))
	e.sol.Send("(assert (= " + n + " " + i.Sym + "))")
	i.Sym = n
	return i
}
func (e *Exec) nmB(b Bool) Bool {
	if b.IsC || len(b.Sym) < nameThreshold {
		return b
	}
	n := e.fresh("b")
	e.declare(n, "Bool")
	e.sol.Send("(assert (= " + n + " " + b.Sym + "))")
	b.Sym = n
	return b
}
func (e *Exec) nmF(f Float) Float {
	if e.relaxed {
		return e.nmR(f)
	}
	if f.IsC || len(f.Sym) < nameThreshold {
		return f
	}
	n := e.fresh("f")
	e.declare(n, sortFP)
	e.sol.Send("(assert (= " + n + " " + f.Sym + "))")
	f.Sym = n
	return f
}
func (e *Exec) nmW(w Wide) Wide {
	if w.IsC || len(w.Sym) < nameThreshold {
		return w
	}
	n := e.fresh("w")
	e.declare(n, sortBV(wideW))
	e.sol.Send("(assert (= " + n + " " + w.Sym + "))")
	w.Sym = n
	return w
}

func (e *Exec) unsupported(format string, a ...interface{}) {
	panic(pathEnd{"unsupported", fmt.Sprintf(format, a...) + " @" + e.where()})
}

// feasible asks whether pc ∧ c is satisfiable (unknown counts as feasible).
func (e *Exec) check(c string) CheckResult {
	if !e.deadline.IsZero() && time.Now().After(e.deadline) {
		panic(pathEnd{"budget", "time budget exceeded"})
	}
	r, _ := e.sol.Check(c, nil)
	return r
}

// decide resolves a symbolic branch condition.
func (e *Exec) decide(c Bool) bool {
	if c.IsC {
		return c.C
	}
	if e.pos < len(e.prefix) {
		d := e.prefix[e.pos]
		e.pos++
		e.trace = append(e.trace, d)
		if !d.Forced {
			if d.Val {
				e.assert(c)
			} else {
				e.assert(bNot(c))
			}
		}
		return d.Val
	}
	e.pos++
	r1 := e.check(c.Sym)
	if r1 == RUnsat {
		e.trace = append(e.trace, Decision{Val: false, Forced: true})
		return false
	}
	r2 := e.check(bNot(c).T())
	if r2 == RUnsat {
		e.trace = append(e.trace, Decision{Val: true, Forced: true})
		return true
	}
	if r1 == RUnknown || r2 == RUnknown {
		e.unkFeas++
	}
	alt := make([]Decision, len(e.trace)+1)
	copy(alt, e.trace)
	alt[len(e.trace)] = Decision{Val: false}
	e.pending = append(e.pending, alt)
	e.trace = append(e.trace, Decision{Val: true})
	e.assert(c)
	return true
}

// concretize turns a symbolic int into a concrete one by forking over its feasible values.
func (e *Exec) concretize(i Int, what string, limit int) Int {
	if i.IsC {
		return i
	}
	for n := 0; ; n++ {
		if n > limit {
			panic(pathEnd{"unwind", "concretize " + what + ": more than " + fmt.Sprint(limit) + " values"})
		}
		var cand uint64
		if e.pos < len(e.prefix) {
			cand = e.prefix[e.pos].Aux
		} else {
			in := i
			if in.Off != 0 || strings.ContainsAny(in.Sym, "( ") {
				n := e.fresh("cz")
				e.declare(n, sortBV(i.W))
				e.sol.Send("(assert (= " + n + " " + i.T() + "))")
				in = Int{W: i.W, Signed: i.Signed, Sym: n}
			}
			i = in
			r, m := e.sol.Check("", []string{in.Sym})
			if r != RSat {
				if r == RUnsat {
					panic(pathEnd{"assume-dead", "concretize on infeasible path"})
				}
				e.unsupported("concretize %s: solver %v", what, r)
			}
			v, ok := parseBV(m[in.Sym])
			if !ok {
				e.unsupported("concretize %s: bad model %q", what, m[in.Sym])
			}
			cand = v
		}
		c := mkInt(i.W, i.Signed, cand)
		if e.decideAux(iCmp("==", i, c), cand) {
			return c
		}
	}
}

// decideAux is decide with a payload remembered in the trace (so re-execution sees the same candidate).
func (e *Exec) decideAux(c Bool, aux uint64) bool {
	if c.IsC {
		// still consume a trace slot to stay aligned
		if e.pos < len(e.prefix) {
			d := e.prefix[e.pos]
			e.pos++
			e.trace = append(e.trace, d)
			return d.Val
		}
		e.pos++
		e.trace = append(e.trace, Decision{Val: c.C, Forced: true, Aux: aux})
		return c.C
	}
	if e.pos < len(e.prefix) {
		d := e.prefix[e.pos]
		e.pos++
		e.trace = append(e.trace, d)
		if !d.Forced {
			if d.Val {
				e.assert(c)
			} else {
				e.assert(bNot(c))
			}
		}
		return d.Val
	}
	e.pos++
	// candidate came from a model, so c is feasible
	r2 := e.check(bNot(c).T())
	if r2 == RUnsat {
		e.trace = append(e.trace, Decision{Val: true, Forced: true, Aux: aux})
		return true
	}
	alt := make([]Decision, len(e.trace)+1)
	copy(alt, e.trace)
	alt[len(e.trace)] = Decision{Val: false, Aux: aux}
	e.pending = append(e.pending, alt)
	e.trace = append(e.trace, Decision{Val: true, Aux: aux})
	e.assert(c)
	return true
}

// parseReal parses z3/cvc5 model values of sort Real: 12.0, (- 3.5), (/ 1.0 3.0), (- (/ 1 3)).
func parseReal(s string) (*big.Rat, bool) {
	toks := tokenize(s)
	pos := 0
	var parse func() (*big.Rat, bool)
	parse = func() (*big.Rat, bool) {
		if pos >= len(toks) {
			return nil, false
		}
		t := toks[pos]
		pos++
		if t != "(" {
			r, ok := new(big.Rat).SetString(t)
			return r, ok
		}
		if pos >= len(toks) {
			return nil, false
		}
		op := toks[pos]
		pos++
		var args []*big.Rat
		for pos < len(toks) && toks[pos] != ")" {
			a, ok := parse()
			if !ok {
				return nil, false
			}
			args = append(args, a)
		}
		pos++
		switch {
		case op == "-" && len(args) == 1:
			return new(big.Rat).Neg(args[0]), true
		case op == "-" && len(args) == 2:
			return new(big.Rat).Sub(args[0], args[1]), true
		case op == "/" && len(args) == 2 && args[1].Sign() != 0:
			return new(big.Rat).Quo(args[0], args[1]), true
		}
		return nil, false
	}
	return parse()
}

func parseBV(s string) (uint64, bool) {
	s = strings.TrimSpace(s)
	var v uint64
	if strings.HasPrefix(s, "#x") {
		if len(s)-2 > 16 {
			return 0, false
		}
		_, err := fmt.Sscanf(s[2:], "%x", &v)
		return v, err == nil
	}
	if strings.HasPrefix(s, "#b") {
		if len(s)-2 > 64 {
			return 0, false
		}
		for _, c := range s[2:] {
			v = v<<1 | uint64(c-'0')
		}
		return v, true
	}
	if strings.HasPrefix(s, "(_ bv") {
		_, err := fmt.Sscanf(s, "(_ bv%d", &v)
		return v, err == nil
	}
	return 0, false
}

func (e *Exec) inputSyms() []string {
	var vs []string
	for _, in := range e.inputs {
		if in.Sym != "" {
			vs = append(vs, in.Sym)
		}
		for _, t := range in.Toks {
			vs = append(vs, tokAttrs(t)...)
			if e.tokB0[t] {
				vs = append(vs, fmt.Sprintf("tok%d_b0int", t), fmt.Sprintf("tok%d_b0val", t))
			}
		}
	}
	return vs
}

func tokAttrs(t int) []string {
	return []string{fmt.Sprintf("tok%d_isint", t), fmt.Sprintf("tok%d_ovf", t), fmt.Sprintf("tok%d_canon", t), fmt.Sprintf("tok%d_val", t), fmt.Sprintf("tok%d_id", t), fmt.Sprintf("tok%d_empty", t)}
}

func (e *Exec) where() string {
	if len(e.curFn) == 0 {
		return ""
	}
	var parts []string
	for i := len(e.curFn) - 1; i >= 0 && len(parts) < 4; i-- {
		parts = append(parts, e.curFn[i].Name())
	}
	return strings.Join(parts, "<-")
}

// obligation: c must hold on this path.  Violations carry a model of the inputs.
func (e *Exec) obligation(c Bool, label, kind string) {
	if e.guard != nil {
		if !c.IsC && !e.guard.IsC && strings.Contains(e.guard.Sym, c.Sym) && guardImplies(e.guard.Sym, c.Sym) {
			e.stats.ConcreteOK++
			return
		}
		c = e.nmB(bOr(bNot(*e.guard), c))
	}
	if c.IsC && c.C {
		e.stats.ConcreteOK++
		return
	}
	if e.pos < len(e.prefix) {
		// shared prefix: the parent path met this obligation under the same path condition
		if c.IsC {
			panic(pathEnd{"violated", label})
		}
		e.assert(c)
		return
	}
	var r CheckResult
	var model map[string]string
	neg := bNot(c).T()
	vars := e.inputSyms()
	if d := os.Getenv("SYMGO_DUMP"); d != "" {
		dumpCtr++
		os.WriteFile(fmt.Sprintf("%s/q%03d_%s.smt2", d, dumpCtr, sanitize(label)), []byte(strings.Join(e.sol.log, "\n")+"\n(assert "+neg+")\n(check-sat)\n"), 0o644)
	}
	r, model = e.sol.Check(neg, vars)
	if r == RUnknown {
		// portfolio fallback on the logged script
		for _, k := range []SolverKind{CVC5, Z3New, Z3} {
			if k == e.sol.kind {
				continue
			}
			r, model = oneShot(k, e.sol.log, neg, vars, e.timeoutMs)
			if r != RUnknown {
				break
			}
		}
	}
	if r == RUnknown {
		// patient retry: a loaded machine must not turn a decidable query into a broken check
		for i, k := range []SolverKind{e.sol.kind, CVC5, Z3New, Z3} {
			if i > 0 && k == e.sol.kind {
				continue
			}
			// never beyond the instance's own time budget
			left := int(time.Until(e.deadline) / time.Millisecond)
			if left < e.timeoutMs {
				break
			}
			tmo := e.timeoutMs * 8
			if tmo > left {
				tmo = left
			}
			r, model = oneShot(k, e.sol.log, neg, vars, tmo)
			if r != RUnknown {
				break
			}
		}
	}
	switch r {
	case RUnsat:
		e.stats.Discharged++
		if len(e.stats.Obligations) < 6 {
			e.stats.Obligations = append(e.stats.Obligations, kind+":"+label+" @"+e.where())
		}
	case RSat:
		v := Violation{Harness: e.harness, Case: e.cases, Label: label, Kind: kind, Where: e.where(), Inputs: e.decodeInputs(model)}
		e.stats.Violations = append(e.stats.Violations, v)
	default:
		e.stats.Inconclusive = append(e.stats.Inconclusive, fmt.Sprintf("%s:%s solver unknown (%s) @%s", kind, label, lastSolverError, e.where()))
	}
	if c.IsC && !c.C {
		panic(pathEnd{"violated", label})
	}
	if r != RUnsat {
		// continue under the assumption that the obligation holds, if possible
		if e.check(c.Sym) == RUnsat {
			panic(pathEnd{"violated", label})
		}
	}
	e.assert(c)
}

// guardImplies: g is c itself or a conjunction with c as a top-level conjunct.
func guardImplies(g, c string) bool {
	if g == c {
		return true
	}
	if strings.HasPrefix(g, "(and ") {
		// top-level conjuncts
		body := g[5 : len(g)-1]
		d, start := 0, 0
		for i := 0; i <= len(body); i++ {
			if i == len(body) || (body[i] == ' ' && d == 0) {
				if guardImplies(body[start:i], c) {
					return true
				}
				start = i + 1
				continue
			}
			switch body[i] {
			case '(':
				d++
			case ')':
				d--
			}
		}
	}
	return false
}

// concretePanic: a panic reached with a concrete condition on a feasible path.
func (e *Exec) runtimePanic(label string) {
	e.obligation(mkBool(false), label, "panic")
}

func (e *Exec) decodeInputs(model map[string]string) map[string]string {
	out := map[string]string{}
	for _, in := range e.inputs {
		switch in.Kind {
		case "int64":
			if v, ok := parseBV(model[in.Sym]); ok {
				out[in.Name] = fmt.Sprint(int64(v))
			}
		case "float64":
			if v, ok := parseBV(model[in.Sym]); ok {
				out[in.Name] = fmt.Sprintf("0x%016x", v)
			}
		case "real":
			if r, ok := parseReal(model[in.Sym]); ok {
				f, _ := r.Float64()
				out[in.Name] = fmt.Sprintf("0x%016x", math.Float64bits(f))
			}
		case "bool":
			out[in.Name] = model[in.Sym]
		case "choice":
			out[in.Name] = in.Const
		case "string":
			var fields []string
			for _, t := range in.Toks {
				fields = append(fields, synthToken(t, model))
			}
			out[in.Name] = strings.Join(fields, "/")
		}
	}
	return out
}

func synthToken(t int, m map[string]string) string {
	a := tokAttrs(t)
	isint := m[a[0]] == "true"
	ovf := m[a[1]] == "true"
	canon := m[a[2]] == "true"
	val, _ := parseBV(m[a[3]])
	idv, _ := parseBV(m[a[4]])
	id := fmt.Sprintf("%x", idv)
	empty := m[a[5]] == "true"
	if !isint && !empty && m[fmt.Sprintf("tok%d_b0int", t)] == "true" {
		// a text that only a base-0 parse accepts: a 0x-prefixed hexadecimal literal
		bv, _ := parseBV(m[fmt.Sprintf("tok%d_b0val", t)])
		if int64(bv) < 0 {
			return fmt.Sprintf("-0x%x", -bv)
		}
		return fmt.Sprintf("0x%x", bv)
	}
	switch {
	case empty:
		return ""
	case isint && ovf:
		if int64(val) < 0 {
			return "-99999999999999999999" + id
		}
		return "99999999999999999999" + id
	case isint && canon:
		return fmt.Sprint(int64(val))
	case isint:
		if int64(val) >= 0 {
			return "+" + fmt.Sprint(int64(val))
		}
		return "-0" + fmt.Sprint(-int64(val))
	default:
		return "x" + id
	}
}

// ---------- values

func copyVal(v Value) Value {
	switch x := v.(type) {
	case Struct:
		f := make([]Value, len(x.F))
		for i := range f {
			f[i] = copyVal(x.F[i])
		}
		return Struct{f}
	case Array:
		el := make([]Value, len(x.E))
		for i := range el {
			el[i] = copyVal(x.E[i])
		}
		var o *overlay
		if x.O != nil {
			o = &overlay{w: append([]symWrite(nil), x.O.w...)}
		}
		return Array{el, o}
	}
	return v
}

func intInfo(t types.Type) (w int, signed bool, ok bool) {
	b, isb := t.Underlying().(*types.Basic)
	if !isb {
		return 0, false, false
	}
	switch b.Kind() {
	case types.Int, types.Int64, types.UntypedInt:
		return 64, true, true
	case types.Int32, types.UntypedRune:
		return 32, true, true
	case types.Int16:
		return 16, true, true
	case types.Int8:
		return 8, true, true
	case types.Uint, types.Uint64, types.Uintptr:
		return 64, false, true
	case types.Uint32:
		return 32, false, true
	case types.Uint16:
		return 16, false, true
	case types.Uint8:
		return 8, false, true
	}
	return 0, false, false
}

func isFloat(t types.Type) bool {
	b, ok := t.Underlying().(*types.Basic)
	return ok && (b.Kind() == types.Float64 || b.Kind() == types.Float32 || b.Kind() == types.UntypedFloat)
}

func (e *Exec) zero(t types.Type) Value {
	switch u := t.Underlying().(type) {
	case *types.Basic:
		if w, s, ok := intInfo(t); ok {
			return mkInt(w, s, 0)
		}
		switch {
		case u.Info()&types.IsFloat != 0:
			return mkFloat(0)
		case u.Info()&types.IsBoolean != 0:
			return mkBool(false)
		case u.Info()&types.IsString != 0:
			return Str{}
		case u.Kind() == types.UnsafePointer:
			return Ptr{}
		case u.Kind() == types.UntypedNil:
			return nil
		}
	case *types.Pointer:
		return Ptr{}
	case *types.Slice:
		return Slice{}
	case *types.Map:
		return MapV{}
	case *types.Struct:
		f := make([]Value, u.NumFields())
		for i := range f {
			f[i] = e.zero(u.Field(i).Type())
		}
		return Struct{f}
	case *types.Array:
		n := int(u.Len())
		el := make([]Value, n)
		for i := range el {
			el[i] = e.zero(u.Elem())
		}
		return Array{E: el}
	case *types.Interface:
		return Iface{}
	case *types.Signature:
		return Closure{}
	case *types.Chan:
		return OpaqueV{"chan"}
	case *types.Tuple:
		tu := make(Tuple, u.Len())
		for i := range tu {
			tu[i] = e.zero(u.At(i).Type())
		}
		return tu
	}
	e.unsupported("zero value of %s", t)
	return nil
}

func (e *Exec) newObj(v Value, desc string) *Object {
	e.objCtr++
	return &Object{id: e.objCtr, v: v, epoch: e.epoch, desc: desc}
}

func (e *Exec) constVal(c *ssa.Const) Value {
	t := c.Type()
	if c.Value == nil {
		return e.zero(t)
	}
	if w, s, ok := intInfo(t); ok {
		if c.Value.Kind() == constant.Int {
			if v, exact := constant.Int64Val(c.Value); exact {
				return mkInt(w, s, uint64(v))
			}
			v, _ := constant.Uint64Val(c.Value)
			return mkInt(w, s, v)
		}
		f, _ := constant.Float64Val(constant.ToFloat(c.Value))
		return mkInt(w, s, uint64(int64(f)))
	}
	if isFloat(t) {
		f, _ := constant.Float64Val(constant.ToFloat(c.Value))
		if b, ok := t.Underlying().(*types.Basic); ok && b.Kind() == types.Float32 {
			f = float64(float32(f))
		}
		return mkFloat(f)
	}
	switch c.Value.Kind() {
	case constant.Bool:
		return mkBool(constant.BoolVal(c.Value))
	case constant.String:
		return lit(constant.StringVal(c.Value))
	}
	e.unsupported("constant %v of type %s", c, t)
	return nil
}

// ---------- pointers

func (e *Exec) loadPath(v Value, path []int) Value {
	for _, i := range path {
		switch x := v.(type) {
		case Struct:
			v = x.F[i]
		case Array:
			if i < 0 || i >= len(x.E) {
				e.unsupported("internal: array path out of range")
			}
			v = x.E[i]
			if x.O != nil {
				for k := len(x.O.w) - 1; k >= 0; k-- {
					w := x.O.w[k]
					if e.decide(iCmp("==", w.Idx, mkInt(w.Idx.W, w.Idx.Signed, uint64(i)))) {
						v = w.Val
						break
					}
				}
			}
		default:
			e.unsupported("internal: loadPath through %T", v)
		}
	}
	return v
}

func storePath(root Value, path []int, nv Value) Value {
	if len(path) == 0 {
		return nv
	}
	switch x := root.(type) {
	case Struct:
		x.F[path[0]] = storePath(x.F[path[0]], path[1:], nv)
		return x
	case Array:
		if x.O != nil {
			if len(path) != 1 {
				panic(pathEnd{"unsupported", "store into an aggregate element of an array with symbolic-index writes"})
			}
			x.O.w = append(x.O.w, symWrite{Idx: mkI64(int64(path[0])), Val: nv})
			return x
		}
		x.E[path[0]] = storePath(x.E[path[0]], path[1:], nv)
		return x
	}
	panic("storePath through non-aggregate")
}

func (e *Exec) load(p Ptr) Value {
	if p.Obj == nil {
		e.runtimePanic("nil pointer dereference")
	}
	return copyVal(e.loadPath(p.Obj.v, p.Path))
}

func (e *Exec) noteWrite(o *Object, what string) {
	if !e.frameOn {
		return
	}
	if o.epoch < e.epoch && !e.allow[o] {
		k := "caller memory"
		if o.glob {
			k = "package-level variable"
		}
		e.obligation(mkBool(false), fmt.Sprintf("%s: write to %s (%s) via %s", e.frameLbl, k, o.desc, what), "frame")
	}
}

func (e *Exec) store(p Ptr, v Value) {
	if p.Obj == nil {
		e.runtimePanic("nil pointer dereference (store)")
	}
	e.noteWrite(p.Obj, "store")
	p.Obj.v = storePath(p.Obj.v, p.Path, copyVal(v))
}

func extPath(p []int, i int) []int {
	n := make([]int, len(p)+1)
	copy(n, p)
	n[len(p)] = i
	return n
}

// ---------- frames

type Frame struct {
	fn     *ssa.Function
	env    map[ssa.Value]Value
	visits map[*ssa.BasicBlock]int
	defers []func()
}

func (e *Exec) get(fr *Frame, v ssa.Value) Value {
	switch x := v.(type) {
	case *ssa.Const:
		return e.constVal(x)
	case *ssa.Function:
		return Closure{Fn: x}
	case *ssa.Global:
		return Ptr{Obj: e.globalObj(x)}
	case *ssa.Builtin:
		return x
	}
	val, ok := fr.env[v]
	if !ok {
		e.unsupported("internal: no value for %s (%T) in %s", v.Name(), v, fr.fn.Name())
	}
	return val
}

func (e *Exec) globalObj(g *ssa.Global) *Object {
	if o, ok := e.globals[g]; ok {
		return o
	}
	o := &Object{id: -len(e.globals) - 1, v: e.zero(g.Type().(*types.Pointer).Elem()), epoch: 0, desc: "global " + g.Name(), glob: true}
	e.globals[g] = o
	return o
}

func (e *Exec) inRepo(fn *ssa.Function) bool {
	if fn.Pkg == nil {
		// instantiated generics / wrappers: look at origin
		if o := fn.Origin(); o != nil && o.Pkg != nil {
			return strings.HasPrefix(o.Pkg.Pkg.Path(), e.repoPrefix)
		}
		return false
	}
	return strings.HasPrefix(fn.Pkg.Pkg.Path(), e.repoPrefix)
}

func fnFullName(fn *ssa.Function) string {
	if fn.Pkg != nil && fn.Signature.Recv() == nil {
		return fn.Pkg.Pkg.Path() + "." + fn.Name()
	}
	return fn.String()
}

// call executes fn with args (including receiver first for methods).
func (e *Exec) call(fn *ssa.Function, args []Value, binds []Value) Value {
	name := fnFullName(fn)
	if fn.Name() == "init" && !e.inRepo(fn) {
		return nil // initialisers of dependencies are not executed (their globals are not read by modelled code)
	}
	if r, ok := e.intrinsic(fn, name, args); ok {
		return r
	}
	if len(fn.Blocks) == 0 {
		e.unsupported("call to body-less function %s", name)
	}
	if e.depth > 200 {
		panic(pathEnd{"unwind", "call depth > 200 in " + name})
	}
	if e.stats.Funcs != nil {
		if _, seen := e.stats.Funcs[name]; !seen && e.inRepo(fn) {
			pos := e.prog.Fset.Position(fn.Pos())
			e.stats.Funcs[name] = fmt.Sprintf("%s:%d", pos.Filename, pos.Line)
		}
	}
	e.depth++
	e.curFn = append(e.curFn, fn)
	defer func() { e.depth--; e.curFn = e.curFn[:len(e.curFn)-1] }()
	fr := &Frame{fn: fn, env: make(map[ssa.Value]Value, 64), visits: map[*ssa.BasicBlock]int{}}
	for i, p := range fn.Params {
		fr.env[p] = args[i]
	}
	for i, fv := range fn.FreeVars {
		fr.env[fv] = binds[i]
	}
	return e.runBlocks(fr)
}

func (e *Exec) runBlocks(fr *Frame) Value {
	var prev *ssa.BasicBlock
	prevK := 0
	b := fr.fn.Blocks[0]
	skipPhis := false
	for {
		// phis (simultaneous)
		start := 0
		if !skipPhis {
			var phiVals []Value
			var phis []*ssa.Phi
			for _, ins := range b.Instrs {
				ph, ok := ins.(*ssa.Phi)
				if !ok {
					break
				}
				idx := predIndex(prev, b, prevK)
				phiVals = append(phiVals, e.get(fr, ph.Edges[idx]))
				phis = append(phis, ph)
			}
			for i, ph := range phis {
				fr.env[ph] = phiVals[i]
			}
			start = len(phis)
		} else {
			for _, ins := range b.Instrs {
				if _, ok := ins.(*ssa.Phi); !ok {
					break
				}
				start++
			}
			skipPhis = false
		}
		var next *ssa.BasicBlock
		for _, ins := range b.Instrs[start:] {
			e.instrs++
			if e.instrs > e.budget {
				panic(pathEnd{"budget", "instruction budget exceeded"})
			}
			if e.instrs&0xfff == 0 && !e.deadline.IsZero() && time.Now().After(e.deadline) {
				panic(pathEnd{"budget", "time budget exceeded"})
			}
			switch i := ins.(type) {
			case *ssa.Jump:
				next, prevK = b.Succs[0], 0
			case *ssa.If:
				c := e.get(fr, i.Cond).(Bool)
				if c.IsC {
					if c.C {
						next, prevK = b.Succs[0], 0
					} else {
						next, prevK = b.Succs[1], 1
					}
				} else if ex, lok := e.tryLoopIfEnabled(fr, b, c); lok {
					next = ex
					prevK = 0
					if b.Succs[1] == ex {
						prevK = 1
					}
				} else if j, rv, isRet, ok := e.tryRegion(fr, b, c); ok {
					if isRet {
						e.runDefers(fr)
						return rv
					}
					next = j
					skipPhis = true
				} else {
					var tk bool
					tk = e.decide(c)
					if tk {
						next, prevK = b.Succs[0], 0
					} else {
						next, prevK = b.Succs[1], 1
					}
					fr.visits[next]++
					if fr.visits[next] > e.unwind {
						panic(pathEnd{"unwind", fmt.Sprintf("loop bound %d exceeded in %s", e.unwind, fr.fn.Name())})
					}
				}
			case *ssa.Return:
				e.runDefers(fr)
				switch len(i.Results) {
				case 0:
					return nil
				case 1:
					return e.get(fr, i.Results[0])
				default:
					t := make(Tuple, len(i.Results))
					for k, r := range i.Results {
						t[k] = e.get(fr, r)
					}
					return t
				}
			case *ssa.Panic:
				e.runtimePanic("explicit panic in " + fr.fn.Name())
			default:
				e.step(fr, ins)
			}
			if next != nil {
				break
			}
		}
		if next == nil {
			e.unsupported("internal: block without terminator in %s", fr.fn.Name())
		}
		prev = b
		b = next
	}
}

func (e *Exec) runDefers(fr *Frame) {
	for i := len(fr.defers) - 1; i >= 0; i-- {
		fr.defers[i]()
	}
	fr.defers = nil
}

// ---------- if-conversion of pure acyclic regions

var pureCallees = map[string]bool{
	"math.Pow": true, "math.Floor": true, "math.Ceil": true, "math.Abs": true, "math.Sqrt": true, "math.Mod": true,
	"math.Log": true, "math.Tan": true, "math.Cos": true, "math.Sin": true, "math.Atan": true, "math.Sinh": true,
	"math.IsNaN": true, "math.IsInf": true, "math.Float64bits": true, "math.Float64frombits": true,
	"strconv.FormatInt": true, "strconv.Itoa": true,
}

var pureHarnessPrims = map[string]bool{
	"vW": true, "vWB": true, "vWAdd": true, "vWSub": true, "vWShl": true, "vWShr": true, "vWLt": true, "vWLe": true, "vWEq": true,
	"vWFits64": true, "vWTo64": true, "vKnown": true, "vCase": true, "vFloatRange": true,
	"vR": true, "vRI": true, "vRAdd": true, "vRSub": true, "vRMul": true, "vRDiv": true, "vRLt": true, "vRLe": true,
}

func (e *Exec) pureCall(c *ssa.CallCommon) bool {
	if c.IsInvoke() {
		return false
	}
	fn, ok := c.Value.(*ssa.Function)
	if !ok {
		return false
	}
	if pureCallees[fnFullName(fn)] {
		return true
	}
	if fn.Pkg != nil && pureHarnessPrims[fn.Name()] && strings.HasPrefix(fn.Pkg.Pkg.Path(), e.repoPrefix) {
		return true
	}
	return e.pureFn(fn)
}

var pureFnMemo = map[*ssa.Function]int{} // 0 unknown, 1 in progress, 2 pure, 3 impure
var pureFnMu sync.Mutex

// pureFn: a function whose body is an acyclic CFG of pure instructions (no stores, no
// impure calls); such calls may be evaluated under a guard.
func (e *Exec) pureFn(fn *ssa.Function) bool {
	pureFnMu.Lock()
	st := pureFnMemo[fn]
	if st == 0 {
		pureFnMemo[fn] = 1
	}
	pureFnMu.Unlock()
	switch st {
	case 1, 3:
		return false
	case 2:
		return true
	}
	res := len(fn.Blocks) > 0 && len(fn.Blocks) <= 32 && fn.Recover == nil
	if res {
		// acyclic: every successor has a larger index in a DFS finishing order check
		color := map[*ssa.BasicBlock]int{}
		var dfs func(b *ssa.BasicBlock) bool
		dfs = func(b *ssa.BasicBlock) bool {
			color[b] = 1
			for _, s := range b.Succs {
				if color[s] == 1 {
					return false
				}
				if color[s] == 0 && !dfs(s) {
					return false
				}
			}
			color[b] = 2
			return true
		}
		res = dfs(fn.Blocks[0])
	}
	if res {
	outer:
		for _, b := range fn.Blocks {
			for _, ins := range b.Instrs {
				switch ins.(type) {
				case *ssa.Jump, *ssa.If, *ssa.Return, *ssa.Phi:
					continue
				}
				if !e.pureInstr(ins) {
					res = false
					break outer
				}
			}
		}
	}
	pureFnMu.Lock()
	if res {
		pureFnMemo[fn] = 2
	} else {
		pureFnMemo[fn] = 3
	}
	pureFnMu.Unlock()
	return res
}

func (e *Exec) pureInstr(ins ssa.Instruction) bool {
	switch i := ins.(type) {
	case *ssa.BinOp:
		return true
	case *ssa.UnOp:
		return i.Op != token.ARROW
	case *ssa.Convert, *ssa.ChangeType, *ssa.ChangeInterface, *ssa.MakeInterface, *ssa.DebugRef,
		*ssa.FieldAddr, *ssa.Field, *ssa.IndexAddr, *ssa.Index, *ssa.Extract, *ssa.Slice:
		return true
	case *ssa.Call:
		return e.pureCall(&i.Call)
	}
	return false
}

type regionEdge struct {
	from  *ssa.BasicBlock
	k     int // successor index in from.Succs
	guard Bool
}

// predIndex: index in to.Preds of the edge from.Succs[k] -> to (duplicates are ordered as in Succs).
func predIndex(from, to *ssa.BasicBlock, k int) int {
	nth := 0
	for i := 0; i < k; i++ {
		if from.Succs[i] == to {
			nth++
		}
	}
	for i, p := range to.Preds {
		if p == from {
			if nth == 0 {
				return i
			}
			nth--
		}
	}
	return -1
}

type retLeaf struct {
	guard Bool
	vals  []Value
}

// regionEval evaluates, once and under path guards, the acyclic region of pure blocks entered
// through `heads` (edges leaving block b).  Blocks are admitted when they are pure and all
// their predecessors are b or admitted blocks; `stop` blocks are never admitted (exits).
// It returns the guarded edges arriving at each exit block and the guarded return leaves.
// ok=false means the shape is not a region (nothing has been evaluated in that case unless
// a phi merge failed, which only leaves harmless env entries behind).
func (e *Exec) regionEval(fr *Frame, b *ssa.BasicBlock, heads []regionEdge, stop map[*ssa.BasicBlock]bool) (ok bool, exits map[*ssa.BasicBlock][]regionEdge, rets []retLeaf) {
	inR := map[*ssa.BasicBlock]bool{}
	var order []*ssa.BasicBlock
	admissible := func(x *ssa.BasicBlock) bool {
		if x == b || inR[x] || stop[x] || len(x.Instrs) == 0 {
			return false
		}
		for _, p := range x.Preds {
			if p != b && !inR[p] {
				return false
			}
		}
		for _, ins := range x.Instrs[:len(x.Instrs)-1] {
			if _, isPhi := ins.(*ssa.Phi); isPhi {
				continue
			}
			if !e.pureInstr(ins) {
				return false
			}
		}
		switch x.Instrs[len(x.Instrs)-1].(type) {
		case *ssa.Jump, *ssa.If, *ssa.Return:
			return true
		}
		return false
	}
	for changed := true; changed && len(order) < 64; {
		changed = false
		var cands []*ssa.BasicBlock
		for _, h := range heads {
			cands = append(cands, h.from.Succs[h.k])
		}
		for _, r := range order {
			cands = append(cands, r.Succs...)
		}
		for _, x := range cands {
			if admissible(x) {
				inR[x] = true
				order = append(order, x)
				changed = true
			}
		}
	}
	if len(order) >= 64 {
		return false, nil, nil
	}
	outer := e.guard
	defer func() { e.guard = outer }()
	incoming := map[*ssa.BasicBlock][]regionEdge{}
	exits = map[*ssa.BasicBlock][]regionEdge{}
	addEdge := func(from *ssa.BasicBlock, k int, g Bool) {
		to := from.Succs[k]
		if inR[to] {
			incoming[to] = append(incoming[to], regionEdge{from, k, g})
		} else {
			exits[to] = append(exits[to], regionEdge{from, k, g})
		}
	}
	for _, h := range heads {
		addEdge(h.from, h.k, h.guard)
	}
	for _, x := range order {
		eds := incoming[x]
		if len(eds) == 0 {
			continue
		}
		g := eds[0].guard
		for _, ed := range eds[1:] {
			g = bOr(g, ed.guard)
		}
		g = e.nmB(g)
		vals, mok := e.mergePhis(fr, x, eds)
		if !mok {
			return false, nil, nil
		}
		for ph, v := range vals {
			fr.env[ph] = v
		}
		full := g
		if outer != nil {
			full = e.nmB(bAnd(*outer, g))
		}
		e.guard = &full
		for _, ins := range x.Instrs[:len(x.Instrs)-1] {
			if _, isPhi := ins.(*ssa.Phi); isPhi {
				continue
			}
			e.instrs++
			e.step(fr, ins)
		}
		switch t := x.Instrs[len(x.Instrs)-1].(type) {
		case *ssa.Jump:
			addEdge(x, 0, g)
		case *ssa.If:
			cc := e.get(fr, t.Cond).(Bool)
			addEdge(x, 0, e.nmB(bAnd(g, cc)))
			addEdge(x, 1, e.nmB(bAnd(g, bNot(cc))))
		case *ssa.Return:
			lf := retLeaf{guard: g}
			for _, r := range t.Results {
				lf.vals = append(lf.vals, e.get(fr, r))
			}
			rets = append(rets, lf)
		}
	}
	return true, exits, rets
}

// mergePhis computes, for block x entered through the guarded edges eds, the ite-merged value
// of each of its phis (without writing the environment).
func (e *Exec) mergePhis(fr *Frame, x *ssa.BasicBlock, eds []regionEdge) (map[*ssa.Phi]Value, bool) {
	out := map[*ssa.Phi]Value{}
	for _, ins := range x.Instrs {
		ph, isPhi := ins.(*ssa.Phi)
		if !isPhi {
			break
		}
		var acc Value
		for k := len(eds) - 1; k >= 0; k-- {
			ed := eds[k]
			v := e.get(fr, ph.Edges[predIndex(ed.from, x, ed.k)])
			if k == len(eds)-1 {
				acc = v
				continue
			}
			m, mok := e.merge(ed.guard, v, acc)
			if !mok {
				if regionLog {
					fmt.Fprintf(os.Stderr, "  region: cannot merge %T with %T at phi %s in %s\n", v, acc, ph.Name(), fr.fn.Name())
				}
				return nil, false
			}
			acc = m
		}
		out[ph] = acc
	}
	return out, true
}

// tryRegion if-converts the acyclic single-entry region headed by the If at the end of b
// (symbolic condition c): the region leaves either through one join block or only through
// returns.  Phis of the join (or the function result) become ite terms.
func (e *Exec) tryRegion(fr *Frame, b *ssa.BasicBlock, c Bool) (join *ssa.BasicBlock, ret Value, isRet, ok bool) {
	// cheap shape pre-check so that nothing is evaluated when the region cannot be converted
	shapeOK, stop := e.regionShapeOK(b)
	if !shapeOK {
		return nil, nil, false, false
	}
	rok, exits, rets := e.regionEval(fr, b, []regionEdge{{b, 0, c}, {b, 1, bNot(c)}}, stop)
	if !rok || len(exits) > 1 || (len(exits) == 1 && len(rets) > 0) {
		return nil, nil, false, false
	}
	if len(exits) == 0 {
		if len(rets) == 0 {
			return nil, nil, false, false
		}
		nres := len(rets[0].vals)
		merged := make([]Value, nres)
		for i := 0; i < nres; i++ {
			var acc Value
			for k := len(rets) - 1; k >= 0; k-- {
				v := rets[k].vals[i]
				if k == len(rets)-1 {
					acc = v
					continue
				}
				m, mok := e.merge(rets[k].guard, v, acc)
				if !mok {
					if regionLog {
						fmt.Fprintf(os.Stderr, "  region: cannot merge return %T with %T in %s\n", v, acc, fr.fn.Name())
					}
					return nil, nil, false, false
				}
				acc = m
			}
			merged[i] = acc
		}
		switch nres {
		case 0:
			return nil, nil, true, true
		case 1:
			return nil, merged[0], true, true
		}
		return nil, Tuple(merged), true, true
	}
	for j, eds := range exits {
		vals, mok := e.mergePhis(fr, j, eds)
		if !mok {
			return nil, nil, false, false
		}
		for ph, v := range vals {
			fr.env[ph] = v
		}
		return j, nil, false, true
	}
	return nil, nil, false, false
}

// regionShapeOK: static check (no evaluation) that the If at the end of b heads a region with a
// single exit block or only returns.  The greedy region may swallow its own join (when the join
// is itself a pure block); in that case the first admitted block that works as a forced stop
// (the region then leaves only through it) is chosen and returned.
func (e *Exec) regionShapeOK(b *ssa.BasicBlock) (bool, map[*ssa.BasicBlock]bool) {
	grow := func(stop *ssa.BasicBlock) (order []*ssa.BasicBlock, exits map[*ssa.BasicBlock]bool, nRet int) {
		inR := map[*ssa.BasicBlock]bool{}
		adm := func(x *ssa.BasicBlock) bool {
			if x == b || x == stop || inR[x] || len(x.Instrs) == 0 {
				return false
			}
			for _, p := range x.Preds {
				if p != b && !inR[p] {
					return false
				}
			}
			for _, ins := range x.Instrs[:len(x.Instrs)-1] {
				if _, isPhi := ins.(*ssa.Phi); isPhi {
					continue
				}
				if !e.pureInstr(ins) {
					return false
				}
			}
			switch x.Instrs[len(x.Instrs)-1].(type) {
			case *ssa.Jump, *ssa.If, *ssa.Return:
				return true
			}
			return false
		}
		for changed := true; changed && len(order) < 64; {
			changed = false
			cands := append([]*ssa.BasicBlock{}, b.Succs...)
			for _, r := range order {
				cands = append(cands, r.Succs...)
			}
			for _, x := range cands {
				if adm(x) {
					inR[x] = true
					order = append(order, x)
					changed = true
				}
			}
		}
		exits = map[*ssa.BasicBlock]bool{}
		for _, s := range b.Succs {
			if !inR[s] {
				exits[s] = true
			}
		}
		for _, r := range order {
			if _, isR := r.Instrs[len(r.Instrs)-1].(*ssa.Return); isR {
				nRet++
			}
			for _, s := range r.Succs {
				if !inR[s] {
					exits[s] = true
				}
			}
		}
		return
	}
	order, exits, nRet := grow(nil)
	if len(order) == 0 || len(order) >= 64 {
		return false, nil
	}
	if (len(exits) == 1 && nRet == 0) || (len(exits) == 0 && nRet > 0) {
		return true, nil
	}
	for _, j := range order {
		o2, ex2, nr2 := grow(j)
		if len(o2) > 0 && nr2 == 0 && len(ex2) == 1 && ex2[j] {
			return true, map[*ssa.BasicBlock]bool{j: true}
		}
	}
	if regionLog {
		fmt.Fprintf(os.Stderr, "  region: %d exits / %d returns in %s from block %d\n", len(exits), nRet, b.Parent().Name(), b.Index)
	}
	return false, nil
}

// tryLoop merges a loop whose header H ends in an If with symbolic condition: the body (entered
// through one successor) is a pure region that only flows back to H or breaks to the exit block E
// (H's other successor) without carrying values of its own.  The loop is unrolled under an
// accumulating "still running" guard until the solver shows the guard infeasible; the header's
// phis become ite chains.  One path instead of one per exit iteration.
func (e *Exec) tryLoop(fr *Frame, H *ssa.BasicBlock, c Bool) (exit *ssa.BasicBlock, ok bool) {
	bodyK := -1
	for k := 0; k < 2; k++ {
		if e.loopShapeOK(H, k) {
			bodyK = k
			break
		}
	}
	if bodyK < 0 {
		return nil, false
	}
	E := H.Succs[1-bodyK]
	// header instructions after the phis must be pure: they are re-evaluated every round
	nphi := 0
	for _, ins := range H.Instrs {
		if _, isPhi := ins.(*ssa.Phi); isPhi {
			nphi++
			continue
		}
		break
	}
	for _, ins := range H.Instrs[nphi : len(H.Instrs)-1] {
		if !e.pureInstr(ins) {
			return nil, false
		}
	}
	ifIns := H.Instrs[len(H.Instrs)-1].(*ssa.If)
	active := mkBool(true)
	cond := c
	outer := e.guard
	defer func() { e.guard = outer }()
	for iter := 0; ; iter++ {
		cc := cond
		if bodyK == 1 {
			cc = bNot(cond)
		}
		act := e.nmB(bAnd(active, cc))
		if act.IsC && !act.C {
			break
		}
		if !act.IsC && !e.feasibleCached(act) {
			break
		}
		if iter >= e.unwind {
			panic(pathEnd{"unwind", fmt.Sprintf("merged loop bound %d exceeded in %s", e.unwind, fr.fn.Name())})
		}
		rok, exits, rets := e.regionEval(fr, H, []regionEdge{{H, bodyK, act}}, map[*ssa.BasicBlock]bool{E: true})
		if !rok || len(rets) > 0 {
			if iter == 0 {
				return nil, false
			}
			e.unsupported("loop merging failed after the first iteration in %s", fr.fn.Name())
		}
		back := exits[H]
		for x := range exits {
			if x != H && x != E {
				if iter == 0 {
					return nil, false
				}
				e.unsupported("loop merging: unexpected exit in %s", fr.fn.Name())
			}
		}
		if len(back) == 0 {
			// the body never returns to the header under this guard: loop ends
			active = mkBool(false)
			break
		}
		vals, mok := e.mergePhis(fr, H, back)
		if !mok {
			if iter == 0 {
				return nil, false
			}
			e.unsupported("loop merging: phi merge failed in %s", fr.fn.Name())
		}
		cont := back[0].guard
		for _, ed := range back[1:] {
			cont = bOr(cont, ed.guard)
		}
		cont = e.nmB(cont)
		for ph, v := range vals {
			m, mok2 := e.merge(cont, v, fr.env[ph])
			if !mok2 {
				if iter == 0 {
					return nil, false
				}
				e.unsupported("loop merging: cannot merge loop-carried %T in %s", v, fr.fn.Name())
			}
			fr.env[ph] = m
		}
		active = cont
		// re-evaluate the header under the (outer) guard
		e.guard = outer
		for _, ins := range H.Instrs[nphi : len(H.Instrs)-1] {
			e.instrs++
			e.step(fr, ins)
		}
		cond = e.get(fr, ifIns.Cond).(Bool)
	}
	return E, true
}

func (e *Exec) tryLoopIfEnabled(fr *Frame, H *ssa.BasicBlock, c Bool) (*ssa.BasicBlock, bool) {
	if e.cases["nomerge"] == 1 {
		return nil, false
	}
	return e.tryLoop(fr, H, c)
}

// feasibleCached: satisfiability of pc ∧ c, remembered in the decision trace.
func (e *Exec) feasibleCached(c Bool) bool {
	if e.pos < len(e.prefix) {
		d := e.prefix[e.pos]
		e.pos++
		e.trace = append(e.trace, d)
		return d.Val
	}
	e.pos++
	r := e.check(c.T()) != RUnsat
	e.trace = append(e.trace, Decision{Val: r, Forced: true})
	return r
}

// loopShapeOK: H.Succs[k] heads a pure region whose only exits are H (continue) and the other
// successor E of H (break), and E's phis take the same SSA value on every break edge as on the
// edge from H (a break is then indistinguishable from the header test failing).
func (e *Exec) loopShapeOK(H *ssa.BasicBlock, k int) bool {
	S := H.Succs[k]
	E := H.Succs[1-k]
	if S == H || S == E {
		return false
	}
	inR := map[*ssa.BasicBlock]bool{}
	var order []*ssa.BasicBlock
	adm := func(x *ssa.BasicBlock) bool {
		if x == H || x == E || inR[x] || len(x.Instrs) == 0 {
			return false
		}
		for _, p := range x.Preds {
			if p != H && !inR[p] {
				return false
			}
		}
		for _, ins := range x.Instrs[:len(x.Instrs)-1] {
			if _, isPhi := ins.(*ssa.Phi); isPhi {
				continue
			}
			if !e.pureInstr(ins) {
				return false
			}
		}
		switch x.Instrs[len(x.Instrs)-1].(type) {
		case *ssa.Jump, *ssa.If:
			return true
		}
		return false
	}
	for changed := true; changed && len(order) < 64; {
		changed = false
		cands := []*ssa.BasicBlock{S}
		for _, r := range order {
			cands = append(cands, r.Succs...)
		}
		for _, x := range cands {
			if adm(x) {
				inR[x] = true
				order = append(order, x)
				changed = true
			}
		}
	}
	if !inR[S] || len(order) >= 64 {
		return false
	}
	backs := 0
	for _, r := range order {
		for si, s := range r.Succs {
			switch {
			case inR[s]:
			case s == H:
				backs++
			case s == E:
				// break edge: E's phis must not distinguish it from the edge H -> E
				hi := predIndex(H, E, 1-k)
				bi := predIndex(r, E, si)
				for _, ins := range E.Instrs {
					ph, isPhi := ins.(*ssa.Phi)
					if !isPhi {
						break
					}
					if ph.Edges[hi] != ph.Edges[bi] {
						return false
					}
				}
			default:
				return false
			}
		}
	}
	return backs > 0
}

func sameValue(a, b Value) bool {
	switch x := a.(type) {
	case Ptr:
		y, ok := b.(Ptr)
		if !ok || x.Obj != y.Obj || len(x.Path) != len(y.Path) {
			return false
		}
		for i := range x.Path {
			if x.Path[i] != y.Path[i] {
				return false
			}
		}
		return true
	case Str:
		y, ok := b.(Str)
		if !ok || len(x.P) != len(y.P) {
			return false
		}
		for i := range x.P {
			p, q := x.P[i], y.P[i]
			if p.K != q.K || p.S != q.S || p.Tok != q.Tok || p.I.T() != q.I.T() {
				return false
			}
		}
		return true
	case Iface:
		y, ok := b.(Iface)
		return ok && x.T == nil && y.T == nil
	case Slice:
		y, ok := b.(Slice)
		return ok && x == y
	case MapV:
		y, ok := b.(MapV)
		return ok && x.M == y.M
	}
	return false
}

func (e *Exec) merge(g Bool, a, b Value) (Value, bool) {
	switch x := a.(type) {
	case Int:
		y, ok := b.(Int)
		if !ok {
			return nil, false
		}
		return e.nmI(iIte(g, x, y)), true
	case Bool:
		y, ok := b.(Bool)
		if !ok {
			return nil, false
		}
		return e.nmB(bIte(g, x, y)), true
	case Float:
		y, ok := b.(Float)
		if !ok {
			return nil, false
		}
		return e.fIteX(g, x, y), true
	case Wide:
		y, ok := b.(Wide)
		if !ok {
			return nil, false
		}
		if g.IsC {
			if g.C {
				return x, true
			}
			return y, true
		}
		return e.nmW(Wide{Sym: "(ite " + g.Sym + " " + x.T() + " " + y.T() + ")"}), true
	case Iface:
		y, ok := b.(Iface)
		if !ok {
			return nil, false
		}
		return e.mergeIface(g, x, y)
	case Tuple:
		y, ok := b.(Tuple)
		if !ok || len(x) != len(y) {
			return nil, false
		}
		out := make(Tuple, len(x))
		for i := range x {
			m, mok := e.merge(g, x[i], y[i])
			if !mok {
				return nil, false
			}
			out[i] = m
		}
		return out, true
	}
	if sameValue(a, b) {
		return a, true
	}
	return nil, false
}

func ifaceNil(x Iface) Bool {
	if x.T == nil {
		return mkBool(true)
	}
	if x.MaybeNil != nil {
		return *x.MaybeNil
	}
	return mkBool(false)
}

func isErrorLike(t types.Type) bool {
	if t == symErrType {
		return true
	}
	ms := types.NewMethodSet(t)
	for i := 0; i < ms.Len(); i++ {
		if ms.At(i).Obj().Name() == "Error" {
			return true
		}
	}
	return false
}

// mergeIface merges error-like interface values keeping exact nil-ness; when both sides
// are non-nil errors the payload of the first is kept (the library only ever compares
// errors with nil; recorded as a stub).
func (e *Exec) mergeIface(g Bool, x, y Iface) (Value, bool) {
	if x.T == nil && y.T == nil {
		return x, true
	}
	if (x.T != nil && !isErrorLike(x.T)) || (y.T != nil && !isErrorLike(y.T)) {
		return nil, false
	}
	nilc := e.nmB(bIte(g, ifaceNil(x), ifaceNil(y)))
	pay := x
	if x.T == nil {
		pay = y
	}
	if x.T != nil && y.T != nil {
		e.stubs["merged error values keep only their nil-ness (payload of one side)"] = true
	}
	if nilc.IsC {
		if nilc.C {
			return Iface{}, true
		}
		return Iface{T: pay.T, V: pay.V}, true
	}
	return Iface{T: pay.T, V: pay.V, MaybeNil: &nilc}, true
}

// concreteIface resolves a maybe-nil interface by forking on its nil-ness.
func (e *Exec) concreteIface(x Iface) Iface {
	if x.MaybeNil == nil {
		return x
	}
	if e.decide(*x.MaybeNil) {
		return Iface{}
	}
	return Iface{T: x.T, V: x.V}
}

// ---------- single instruction

func (e *Exec) step(fr *Frame, ins ssa.Instruction) {
	switch i := ins.(type) {
	case *ssa.DebugRef:
	case *ssa.Alloc:
		o := e.newObj(e.zero(i.Type().(*types.Pointer).Elem()), "alloc in "+fr.fn.Name())
		fr.env[i] = Ptr{Obj: o}
	case *ssa.BinOp:
		fr.env[i] = e.binop(i.Op, e.get(fr, i.X), e.get(fr, i.Y), i.X.Type(), i.Y.Type())
	case *ssa.UnOp:
		fr.env[i] = e.unop(fr, i)
	case *ssa.Convert:
		fr.env[i] = e.convert(e.get(fr, i.X), i.X.Type(), i.Type())
	case *ssa.ChangeType:
		fr.env[i] = e.get(fr, i.X)
	case *ssa.ChangeInterface:
		fr.env[i] = e.get(fr, i.X)
	case *ssa.MakeInterface:
		fr.env[i] = Iface{T: i.X.Type(), V: copyVal(e.get(fr, i.X))}
	case *ssa.MakeClosure:
		b := make([]Value, len(i.Bindings))
		for k, x := range i.Bindings {
			b[k] = e.get(fr, x)
		}
		fr.env[i] = Closure{Fn: i.Fn.(*ssa.Function), Binds: b}
	case *ssa.MakeMap:
		e.objCtr++
		fr.env[i] = MapV{&MapObj{id: e.objCtr, epoch: e.epoch}}
	case *ssa.MakeSlice:
		ln := e.get(fr, i.Len).(Int)
		cp := e.get(fr, i.Cap).(Int)
		if !ln.IsC {
			e.obligation(bAnd(iCmp(">=", ln, mkInt(ln.W, ln.Signed, 0)), iCmp("<", ln, mkInt(ln.W, ln.Signed, 1<<40))), "makeslice: len out of range", "panic")
			ln = e.concretize(ln, "make len", 64)
		} else if ln.sval() < 0 {
			e.runtimePanic("makeslice: len out of range")
		}
		n := int(ln.sval())
		c := n
		if cp.IsC {
			if cp.sval() < int64(n) {
				e.runtimePanic("makeslice: cap out of range")
			}
			c = int(cp.sval())
			if c > n+4096 {
				c = n + 4096 // spare capacity beyond what any bounded run appends is immaterial
			}
		} else {
			cpn := iConv(cp, 64, true)
			e.obligation(bAnd(iCmp(">=", cpn, mkI64(int64(n))), iCmp("<", cpn, mkI64(1<<40))), "makeslice: cap out of range", "panic")
			c = n // symbolic capacity: modelled as no spare capacity (append reallocates)
		}
		et := i.Type().Underlying().(*types.Slice).Elem()
		el := make([]Value, c)
		for k := range el {
			el[k] = e.zero(et)
		}
		fr.env[i] = Slice{Arr: e.newObj(Array{E: el}, "make in "+fr.fn.Name()), Off: 0, Len: n, Cap: c}
	case *ssa.FieldAddr:
		p := e.get(fr, i.X).(Ptr)
		if p.Obj == nil {
			e.runtimePanic("nil pointer dereference (field)")
		}
		fr.env[i] = Ptr{Obj: p.Obj, Path: extPath(p.Path, i.Field)}
	case *ssa.Field:
		s := e.get(fr, i.X).(Struct)
		fr.env[i] = copyVal(s.F[i.Field])
	case *ssa.IndexAddr:
		fr.env[i] = e.indexAddr(fr, i)
	case *ssa.Index:
		fr.env[i] = e.index(fr, i)
	case *ssa.Slice:
		fr.env[i] = e.sliceOp(fr, i)
	case *ssa.Store:
		e.storeInstr(fr, i)
	case *ssa.Lookup:
		fr.env[i] = e.lookup(fr, i)
	case *ssa.MapUpdate:
		m := e.get(fr, i.Map).(MapV)
		if m.M == nil {
			e.runtimePanic("assignment to entry in nil map")
		}
		e.mapSet(m.M, e.get(fr, i.Key), e.get(fr, i.Value))
	case *ssa.Extract:
		fr.env[i] = e.get(fr, i.Tuple).(Tuple)[i.Index]
	case *ssa.Call:
		fr.env[i] = e.callInstr(fr, &i.Call, i)
	case *ssa.Defer:
		call := i.Call
		frozen := make([]Value, len(call.Args))
		for k, a := range call.Args {
			frozen[k] = e.get(fr, a)
		}
		fnv := e.get(fr, call.Value)
		fr.defers = append(fr.defers, func() {
			if cl, ok := fnv.(Closure); ok {
				e.call(cl.Fn, frozen, cl.Binds)
			}
		})
	case *ssa.RunDefers:
		e.runDefers(fr)
	case *ssa.Range:
		fr.env[i] = e.rangeInit(e.get(fr, i.X))
	case *ssa.Next:
		fr.env[i] = e.rangeNext(fr, i)
	case *ssa.TypeAssert:
		fr.env[i] = e.typeAssert(fr, i)
	case *ssa.SliceToArrayPointer:
		e.unsupported("SliceToArrayPointer")
	case *ssa.Phi:
		e.unsupported("internal: phi in step")
	default:
		e.unsupported("instruction %T in %s", ins, fr.fn.Name())
	}
}

func (e *Exec) storeInstr(fr *Frame, i *ssa.Store) {
	addr := e.get(fr, i.Addr)
	val := e.get(fr, i.Val)
	switch a := addr.(type) {
	case Ptr:
		e.store(a, val)
	case symElemPtr:
		e.storeSymElem(a, val)
	default:
		e.unsupported("store through %T", addr)
	}
}

// symElemPtr is the address of slice/array element at a symbolic index (scalars only).
type symElemPtr struct {
	Obj     *Object
	Path    []int
	Off     int
	Len     int
	Idx     Int
	Overlay bool // non-scalar elements: writes go to the array's overlay
}

func (e *Exec) storeSymElem(a symElemPtr, v Value) {
	e.noteWrite(a.Obj, "indexed store")
	arr := e.loadPath(a.Obj.v, a.Path).(Array)
	if a.Overlay {
		if arr.O == nil {
			arr.O = &overlay{}
		}
		idx := iConv(a.Idx, 64, true)
		if a.Off != 0 {
			idx = iBin("+", idx, mkI64(int64(a.Off)))
		}
		arr.O.w = append(arr.O.w, symWrite{Idx: idx, Val: copyVal(v)})
		if len(a.Path) == 0 {
			a.Obj.v = arr
		} else {
			e.unsupported("symbolic-index store into an embedded array")
		}
		return
	}
	for k := 0; k < a.Len; k++ {
		g := iCmp("==", a.Idx, mkInt(a.Idx.W, a.Idx.Signed, uint64(k)))
		m, ok := e.merge(g, v, arr.E[a.Off+k])
		if !ok {
			e.unsupported("symbolic-index store of non-scalar %T", v)
		}
		arr.E[a.Off+k] = m
	}
}

func (e *Exec) loadSymElem(a symElemPtr) Value {
	arr := e.loadPath(a.Obj.v, a.Path).(Array)
	if a.Overlay {
		idx := iConv(a.Idx, 64, true)
		if a.Off != 0 {
			idx = iBin("+", idx, mkI64(int64(a.Off)))
		}
		if arr.O != nil {
			for k := len(arr.O.w) - 1; k >= 0; k-- {
				w := arr.O.w[k]
				if e.decide(iCmp("==", w.Idx, idx)) {
					return copyVal(w.Val)
				}
			}
		}
		// miss: a base element; if they are all the same value the index does not matter
		same := true
		for k := 1; k < a.Len; k++ {
			if !sameBase(arr.E[a.Off], arr.E[a.Off+k]) {
				same = false
				break
			}
		}
		if same && a.Len > 0 {
			return copyVal(arr.E[a.Off])
		}
		c := e.concretize(a.Idx, "index of a non-scalar element", 64)
		return copyVal(arr.E[a.Off+int(c.sval())])
	}
	var acc Value
	for k := a.Len - 1; k >= 0; k-- {
		v := arr.E[a.Off+k]
		if acc == nil {
			acc = v
			continue
		}
		g := iCmp("==", a.Idx, mkInt(a.Idx.W, a.Idx.Signed, uint64(k)))
		m, ok := e.merge(g, v, acc)
		if !ok {
			return nil
		}
		acc = m
	}
	return acc
}

func (e *Exec) boundsCheck(idx Int, n int, what string) {
	idx64 := idx
	in := bAnd(iCmp(">=", idx64, mkInt(idx.W, idx.Signed, 0)), iCmp("<", idx64, mkInt(idx.W, idx.Signed, uint64(n))))
	if !idx.Signed {
		in = iCmp("<", idx64, mkInt(idx.W, false, uint64(n)))
	}
	if in.IsC {
		if !in.C {
			e.runtimePanic(fmt.Sprintf("index out of range [%d] with length %d (%s)", idx.sval(), n, what))
		}
		return
	}
	e.obligation(in, fmt.Sprintf("index out of range with length %d (%s)", n, what), "panic")
}

func (e *Exec) noOverlay(a Array) {
	if a.O != nil {
		e.unsupported("bulk operation on an array with symbolic-index writes")
	}
}

func sameBase(a, b Value) bool {
	if pa, ok := a.(Ptr); ok {
		if pb, ok2 := b.(Ptr); ok2 && pa.Obj == nil && pb.Obj == nil {
			return true
		}
	}
	return sameValue(a, b)
}

func isScalar(v Value) bool {
	switch v.(type) {
	case Int, Bool, Float:
		return true
	}
	return false
}

func (e *Exec) indexAddr(fr *Frame, i *ssa.IndexAddr) Value {
	x := e.get(fr, i.X)
	idx := e.get(fr, i.Index).(Int)
	switch b := x.(type) {
	case Slice:
		e.boundsCheck(idx, b.Len, fr.fn.Name())
		if !idx.IsC {
			arr := b.Arr.v.(Array)
			if b.Len > 0 && isScalar(arr.E[b.Off]) && b.Len <= 64 && arr.O == nil {
				return symElemPtr{Obj: b.Arr, Off: b.Off, Len: b.Len, Idx: idx}
			}
			if _, isPtr := arr.E[b.Off].(Ptr); isPtr {
				return symElemPtr{Obj: b.Arr, Off: b.Off, Len: b.Len, Idx: idx, Overlay: true}
			}
			idx = e.concretize(idx, "slice index", 64)
		}
		return Ptr{Obj: b.Arr, Path: []int{b.Off + int(idx.sval())}}
	case Ptr: // pointer to array
		if b.Obj == nil {
			e.runtimePanic("nil pointer dereference (index)")
		}
		arr := e.loadPath(b.Obj.v, b.Path).(Array)
		e.boundsCheck(idx, len(arr.E), fr.fn.Name())
		if !idx.IsC {
			if len(arr.E) > 0 && isScalar(arr.E[0]) && len(arr.E) <= 64 {
				return symElemPtr{Obj: b.Obj, Path: b.Path, Off: 0, Len: len(arr.E), Idx: idx}
			}
			idx = e.concretize(idx, "array index", 64)
		}
		return Ptr{Obj: b.Obj, Path: extPath(b.Path, int(idx.sval()))}
	}
	e.unsupported("IndexAddr on %T", x)
	return nil
}

func (e *Exec) index(fr *Frame, i *ssa.Index) Value {
	x := e.get(fr, i.X)
	idx := e.get(fr, i.Index).(Int)
	switch b := x.(type) {
	case Array:
		e.boundsCheck(idx, len(b.E), fr.fn.Name())
		if !idx.IsC {
			idx = e.concretize(idx, "array value index", 64)
		}
		return copyVal(b.E[idx.sval()])
	case Str:
		return e.strByteAt(b, idx)
	}
	e.unsupported("Index on %T", x)
	return nil
}

func (e *Exec) sliceOp(fr *Frame, i *ssa.Slice) Value {
	x := e.get(fr, i.X)
	getI := func(v ssa.Value, def int) int {
		if v == nil {
			return def
		}
		iv := e.get(fr, v).(Int)
		if !iv.IsC {
			iv = e.concretize(iv, "slice bound", 64)
		}
		return int(iv.sval())
	}
	switch b := x.(type) {
	case Slice:
		lo := getI(i.Low, 0)
		hi := getI(i.High, b.Len)
		mx := getI(i.Max, b.Cap)
		if lo < 0 || hi < lo || hi > b.Cap || mx > b.Cap || hi > mx {
			e.runtimePanic(fmt.Sprintf("slice bounds out of range [%d:%d] cap %d", lo, hi, b.Cap))
		}
		if b.Arr == nil {
			return Slice{}
		}
		return Slice{Arr: b.Arr, Off: b.Off + lo, Len: hi - lo, Cap: mx - lo}
	case Ptr: // *array
		if b.Obj == nil {
			e.runtimePanic("nil pointer dereference (slice)")
		}
		arr := e.loadPath(b.Obj.v, b.Path).(Array)
		n := len(arr.E)
		lo := getI(i.Low, 0)
		hi := getI(i.High, n)
		mx := getI(i.Max, n)
		if lo < 0 || hi < lo || hi > n || mx > n {
			e.runtimePanic("slice bounds out of range (array)")
		}
		if len(b.Path) != 0 {
			e.unsupported("slicing an array embedded in an aggregate")
		}
		return Slice{Arr: b.Obj, Off: lo, Len: hi - lo, Cap: mx - lo}
	case Str:
		lo := getI(i.Low, 0)
		if i.High == nil {
			return e.strSlice(b, int64(lo), 0, false)
		}
		return e.strSlice(b, int64(lo), int64(getI(i.High, 0)), true)
	}
	e.unsupported("Slice on %T", x)
	return nil
}

func (e *Exec) unop(fr *Frame, i *ssa.UnOp) Value {
	x := e.get(fr, i.X)
	switch i.Op {
	case token.MUL:
		switch p := x.(type) {
		case Ptr:
			return e.load(p)
		case symElemPtr:
			v := e.loadSymElem(p)
			if v == nil {
				e.unsupported("symbolic-index load of non-scalar")
			}
			return v
		}
		e.unsupported("load through %T", x)
	case token.NOT:
		return bNot(x.(Bool))
	case token.SUB:
		switch v := x.(type) {
		case Int:
			return e.nmI(iNeg(v))
		case Float:
			return e.fNegX(v)
		}
	case token.XOR:
		return iNot(x.(Int))
	}
	e.unsupported("unop %s on %T", i.Op, x)
	return nil
}

func (e *Exec) binop(op token.Token, x, y Value, xt, yt types.Type) Value {
	switch a := x.(type) {
	case Int:
		b, ok := y.(Int)
		if !ok {
			e.unsupported("binop int with %T", y)
		}
		switch op {
		case token.ADD, token.SUB, token.MUL, token.AND, token.OR, token.XOR, token.AND_NOT:
			return e.nmI(iBin(op.String(), a, b))
		case token.QUO, token.REM:
			z := iCmp("!=", b, mkInt(b.W, b.Signed, 0))
			if z.IsC {
				if !z.C {
					e.runtimePanic("integer divide by zero")
				}
			} else {
				e.obligation(z, "integer divide by zero", "panic")
			}
			return e.nmI(iBin(op.String(), a, b))
		case token.SHL, token.SHR:
			if b.Signed {
				nn := iCmp(">=", b, mkInt(b.W, true, 0))
				if nn.IsC {
					if !nn.C {
						e.runtimePanic("negative shift amount")
					}
				} else {
					e.obligation(nn, "negative shift amount", "panic")
				}
			}
			return e.nmI(iShift(op == token.SHL, a, b))
		case token.EQL, token.NEQ, token.LSS, token.LEQ, token.GTR, token.GEQ:
			return iCmp(op.String(), a, b)
		}
	case Float:
		b := y.(Float)
		switch op {
		case token.ADD, token.SUB, token.MUL, token.QUO:
			return e.floatBin(op.String(), a, b)
		case token.EQL, token.NEQ, token.LSS, token.LEQ, token.GTR, token.GEQ:
			return e.fCmpX(op.String(), a, b)
		}
	case Bool:
		b := y.(Bool)
		switch op {
		case token.EQL:
			return bEq(a, b)
		case token.NEQ:
			return bNot(bEq(a, b))
		case token.AND, token.LAND:
			return bAnd(a, b)
		case token.OR, token.LOR:
			return bOr(a, b)
		}
	case Str:
		b := y.(Str)
		switch op {
		case token.ADD:
			return strConcat(a, b)
		case token.EQL:
			return e.strEq(a, b)
		case token.NEQ:
			return bNot(e.strEq(a, b))
		case token.LSS, token.LEQ, token.GTR, token.GEQ:
			return e.strOrder(a, b, op)
		}
	case Wide:
		e.unsupported("native operators on ghost wide ints")
	default:
		switch op {
		case token.EQL:
			return e.valEq(x, y)
		case token.NEQ:
			return bNot(e.valEq(x, y))
		}
	}
	e.unsupported("binop %s on %T,%T", op, x, y)
	return nil
}

// valEq: == on pointers, interfaces, structs, arrays, maps-vs-nil, closures-vs-nil.
func (e *Exec) valEq(x, y Value) Bool {
	switch a := x.(type) {
	case nil:
		switch b := y.(type) {
		case nil:
			return mkBool(true)
		default:
			return e.valEq(b, nil)
		}
	case Ptr:
		switch b := y.(type) {
		case Ptr:
			return mkBool(sameValue(a, b))
		case nil:
			return mkBool(a.Obj == nil)
		}
	case Iface:
		switch b := y.(type) {
		case nil:
			return ifaceNil(a)
		case Iface:
			if a.T == nil {
				return ifaceNil(b)
			}
			if b.T == nil {
				return ifaceNil(a)
			}
			a, b = e.concreteIface(a), e.concreteIface(b)
			if a.T == nil || b.T == nil {
				return mkBool(a.T == nil && b.T == nil)
			}
			if !types.Identical(a.T, b.T) {
				return mkBool(false)
			}
			return e.valEq(a.V, b.V)
		}
	case Slice:
		if y == nil {
			return mkBool(a.Arr == nil)
		}
		if b, ok := y.(Slice); ok && b.Arr == nil {
			return mkBool(a.Arr == nil)
		}
	case MapV:
		if y == nil {
			return mkBool(a.M == nil)
		}
		if b, ok := y.(MapV); ok && b.M == nil {
			return mkBool(a.M == nil)
		}
	case Closure:
		if y == nil {
			return mkBool(a.Fn == nil)
		}
		if b, ok := y.(Closure); ok && b.Fn == nil {
			return mkBool(a.Fn == nil)
		}
	case Struct:
		b := y.(Struct)
		acc := mkBool(true)
		for i := range a.F {
			acc = bAnd(acc, e.valEq(a.F[i], b.F[i]))
		}
		return e.nmB(acc)
	case Array:
		b := y.(Array)
		acc := mkBool(true)
		for i := range a.E {
			acc = bAnd(acc, e.valEq(a.E[i], b.E[i]))
		}
		return e.nmB(acc)
	case Int:
		return iCmp("==", a, y.(Int))
	case Float:
		return e.fCmpX("==", a, y.(Float))
	case Bool:
		return bEq(a, y.(Bool))
	case Str:
		return e.strEq(a, y.(Str))
	case SymErr:
		if b, ok := y.(SymErr); ok {
			return mkBool(a.id == b.id)
		}
	}
	e.unsupported("== on %T,%T", x, y)
	return Bool{}
}

func (e *Exec) convert(x Value, from, to types.Type) Value {
	switch v := x.(type) {
	case Int:
		if w, s, ok := intInfo(to); ok {
			return iConv(v, w, s)
		}
		if isFloat(to) {
			return e.iToFX(v)
		}
		if b, ok := to.Underlying().(*types.Basic); ok && b.Info()&types.IsString != 0 {
			if v.IsC {
				return lit(string(rune(int32(v.sval()))))
			}
			return Str{P: []Piece{{K: pRune, I: iConv(v, 32, true)}}}
		}
	case Float:
		if w, s, ok := intInfo(to); ok {
			if v.Pow2Of != nil && w == 64 && s {
				n := *v.Pow2Of
				in := bAnd(iCmp(">=", n, mkI64(0)), iCmp("<=", n, mkI64(62)))
				if e.provable(in) {
					return e.nmI(iShift(true, mkI64(1), n))
				}
			}
			if v.FromInt != nil && v.FromInt.W == 64 && v.FromInt.Signed && w == 64 && s {
				// float64(i) back to int64 is exact when |i| < 2^53
				n := *v.FromInt
				in := bAnd(iCmp(">", n, mkI64(-(1<<53))), iCmp("<", n, mkI64(1<<53)))
				if !in.IsC && e.provable(in) {
					return n
				}
			}
			return e.fToIX(v, w, s)
		}
		if isFloat(to) {
			if b, ok := to.Underlying().(*types.Basic); ok && b.Kind() == types.Float32 {
				e.unsupported("float32 conversion")
			}
			return v
		}
	case Str:
		if b, ok := to.Underlying().(*types.Basic); ok && b.Info()&types.IsString != 0 {
			return v
		}
		e.unsupported("string conversion to %s", to)
	case Slice:
		e.unsupported("slice conversion to %s", to)
	case Ptr:
		return v
	}
	e.unsupported("convert %T from %s to %s", x, from, to)
	return nil
}

// floatBin keeps power-of-two scaling cheap and tracks exact provenance.
func (e *Exec) floatBin(op string, a, b Float) Float {
	return e.fBinX(op, a, b)
}

// ---------- maps

func (e *Exec) keyEq(a, b Value) Bool { return e.valEq(a, b) }

func (e *Exec) mapFind(m *MapObj, k Value) *MapEntry {
	for _, en := range m.entries {
		c := e.keyEq(k, en.K)
		if c.IsC {
			if c.C {
				return en
			}
			continue
		}
		if e.decide(c) {
			return en
		}
	}
	return nil
}

func (e *Exec) mapSet(m *MapObj, k, v Value) {
	if e.frameOn && m.epoch < e.epoch {
		e.obligation(mkBool(false), e.frameLbl+": write to caller's map", "frame")
	}
	if en := e.mapFind(m, k); en != nil {
		en.V = copyVal(v)
		return
	}
	m.entries = append(m.entries, &MapEntry{K: copyVal(k), V: copyVal(v)})
}

func (e *Exec) lookup(fr *Frame, i *ssa.Lookup) Value {
	x := e.get(fr, i.X)
	switch m := x.(type) {
	case MapV:
		vt := i.X.Type().Underlying().(*types.Map).Elem()
		var val Value
		found := false
		if m.M != nil {
			if en := e.mapFind(m.M, e.get(fr, i.Index)); en != nil {
				val = copyVal(en.V)
				found = true
			}
		}
		if !found {
			val = e.zero(vt)
		}
		if i.CommaOk {
			return Tuple{val, mkBool(found)}
		}
		return val
	case Str:
		return e.strByteAt(m, e.get(fr, i.Index).(Int))
	}
	e.unsupported("lookup on %T", x)
	return nil
}

func (e *Exec) rangeInit(x Value) Value {
	switch m := x.(type) {
	case MapV:
		it := &mapIter{}
		if m.M != nil {
			ents := append([]*MapEntry(nil), m.M.entries...)
			if e.mapOrder && len(ents) > 1 {
				ents = e.permute(ents)
			}
			for _, en := range ents {
				it.keys = append(it.keys, en.K)
				it.vals = append(it.vals, en.V)
			}
		}
		return it
	}
	if st, ok := x.(Str); ok {
		return e.strRange(st)
	}
	e.unsupported("range over %T", x)
	return nil
}

// permute picks an iteration order by forking (all orders are feasible: Go leaves it unspecified).
func (e *Exec) permute(ents []*MapEntry) []*MapEntry {
	n := len(ents)
	if n > 4 {
		e.unsupported("map iteration order: %d keys exceed the bound 4", n)
	}
	rest := append([]*MapEntry(nil), ents...)
	var out []*MapEntry
	for len(rest) > 1 {
		pick := e.chooseFree(len(rest))
		out = append(out, rest[pick])
		rest = append(rest[:pick], rest[pick+1:]...)
	}
	return append(out, rest[0])
}

// chooseFree forks n ways with no constraint.
func (e *Exec) chooseFree(n int) int {
	if e.pos < len(e.prefix) {
		d := e.prefix[e.pos]
		e.pos++
		e.trace = append(e.trace, d)
		return int(d.Aux)
	}
	e.pos++
	for k := n - 1; k >= 1; k-- {
		alt := make([]Decision, len(e.trace)+1)
		copy(alt, e.trace)
		alt[len(e.trace)] = Decision{Val: true, Forced: true, Aux: uint64(k)}
		e.pending = append(e.pending, alt)
	}
	e.trace = append(e.trace, Decision{Val: true, Forced: true, Aux: 0})
	return 0
}

func (e *Exec) rangeNext(fr *Frame, i *ssa.Next) Value {
	it := e.get(fr, i.Iter)
	switch m := it.(type) {
	case *mapIter:
		if m.i >= len(m.keys) {
			mt := i.Type().(*types.Tuple)
			return Tuple{mkBool(false), e.zeroOrNil(mt.At(1).Type()), e.zeroOrNil(mt.At(2).Type())}
		}
		k, v := m.keys[m.i], m.vals[m.i]
		m.i++
		return Tuple{mkBool(true), copyVal(k), copyVal(v)}
	}
	if m, ok := it.(*strIter); ok {
		if m.i >= len(m.idx) {
			return Tuple{mkBool(false), mkI64(0), mkInt(32, true, 0)}
		}
		k := m.i
		m.i++
		return Tuple{mkBool(true), mkI64(m.idx[k]), m.runes[k]}
	}
	e.unsupported("next on %T", it)
	return nil
}

func (e *Exec) zeroOrNil(t types.Type) Value {
	if b, ok := t.(*types.Basic); ok && b.Kind() == types.Invalid {
		return nil
	}
	return e.zero(t)
}

func (e *Exec) typeAssert(fr *Frame, i *ssa.TypeAssert) Value {
	x := e.concreteIface(e.get(fr, i.X).(Iface))
	if _, isIface := i.AssertedType.Underlying().(*types.Interface); isIface {
		ok := x.T != nil
		if ok {
			ok = types.Implements(x.T, i.AssertedType.Underlying().(*types.Interface))
		}
		if i.CommaOk {
			if ok {
				return Tuple{x, mkBool(true)}
			}
			return Tuple{Iface{}, mkBool(false)}
		}
		if !ok {
			e.runtimePanic("interface conversion failed")
		}
		return x
	}
	ok := x.T != nil && types.Identical(x.T, i.AssertedType)
	if i.CommaOk {
		if ok {
			return Tuple{copyVal(x.V), mkBool(true)}
		}
		return Tuple{e.zero(i.AssertedType), mkBool(false)}
	}
	if !ok {
		e.runtimePanic("type assertion failed")
	}
	return copyVal(x.V)
}

// ---------- calls

func (e *Exec) callInstr(fr *Frame, c *ssa.CallCommon, site ssa.Value) Value {
	args := make([]Value, 0, len(c.Args)+1)
	if c.IsInvoke() {
		recv := e.concreteIface(e.get(fr, c.Value).(Iface))
		if recv.T == nil {
			e.runtimePanic("method call on nil interface")
		}
		if se, ok := recv.V.(SymErr); ok {
			if c.Method.Name() == "Error" {
				return Str{P: []Piece{{K: pOpaque, Tok: 1000000 + se.id}}}
			}
			e.unsupported("method %s on opaque error", c.Method.Name())
		}
		fn := e.prog.LookupMethod(recv.T, c.Method.Pkg(), c.Method.Name())
		if fn == nil {
			e.unsupported("cannot resolve method %s on %s", c.Method.Name(), recv.T)
		}
		args = append(args, copyVal(recv.V))
		for _, a := range c.Args {
			args = append(args, e.get(fr, a))
		}
		return e.call(fn, args, nil)
	}
	for _, a := range c.Args {
		args = append(args, e.get(fr, a))
	}
	switch f := c.Value.(type) {
	case *ssa.Builtin:
		return e.builtin(fr, f, c, args)
	case *ssa.Function:
		return e.call(f, args, nil)
	}
	fv := e.get(fr, c.Value)
	cl, ok := fv.(Closure)
	if ok && cl.Stub != "" {
		return e.stubCall(cl, args)
	}
	if !ok || cl.Fn == nil {
		if ok {
			e.runtimePanic("call of nil function")
		}
		e.unsupported("call of %T", fv)
	}
	return e.call(cl.Fn, args, cl.Binds)
}

func (e *Exec) builtin(fr *Frame, b *ssa.Builtin, c *ssa.CallCommon, args []Value) Value {
	switch b.Name() {
	case "len":
		switch x := args[0].(type) {
		case Slice:
			return mkI64(int64(x.Len))
		case MapV:
			if x.M == nil {
				return mkI64(0)
			}
			return mkI64(int64(len(x.M.entries)))
		case Str:
			return e.strLen(x)
		case Array:
			return mkI64(int64(len(x.E)))
		case Ptr:
			arr := e.load(x).(Array)
			return mkI64(int64(len(arr.E)))
		}
	case "cap":
		switch x := args[0].(type) {
		case Slice:
			return mkI64(int64(x.Cap))
		}
	case "append":
		s := args[0].(Slice)
		var add []Value
		switch t := args[1].(type) {
		case Slice:
			if t.Arr != nil {
				arr := t.Arr.v.(Array)
				e.noOverlay(arr)
				for k := 0; k < t.Len; k++ {
					add = append(add, copyVal(arr.E[t.Off+k]))
				}
			}
		case Str:
			e.unsupported("append string to bytes")
		}
		if len(add) == 0 {
			return s
		}
		if s.Arr != nil && s.Len+len(add) <= s.Cap {
			e.noteWrite(s.Arr, "append into spare capacity")
			arr := s.Arr.v.(Array)
			e.noOverlay(arr)
			for k, v := range add {
				arr.E[s.Off+s.Len+k] = v
			}
			return Slice{Arr: s.Arr, Off: s.Off, Len: s.Len + len(add), Cap: s.Cap}
		}
		n := s.Len + len(add)
		nc := n
		if s.Cap > 0 {
			nc = 2 * s.Cap
			if nc < n {
				nc = n
			}
		}
		et := c.Args[0].Type().Underlying().(*types.Slice).Elem()
		el := make([]Value, nc)
		if s.Arr != nil {
			old := s.Arr.v.(Array)
			e.noOverlay(old)
			for k := 0; k < s.Len; k++ {
				el[k] = copyVal(old.E[s.Off+k])
			}
		}
		for k, v := range add {
			el[s.Len+k] = v
		}
		for k := n; k < nc; k++ {
			el[k] = e.zero(et)
		}
		return Slice{Arr: e.newObj(Array{E: el}, "append in "+fr.fn.Name()), Off: 0, Len: n, Cap: nc}
	case "copy":
		dst := args[0].(Slice)
		src, ok := args[1].(Slice)
		if !ok {
			e.unsupported("copy from %T", args[1])
		}
		n := dst.Len
		if src.Len < n {
			n = src.Len
		}
		if n > 0 {
			e.noteWrite(dst.Arr, "copy")
			d := dst.Arr.v.(Array)
			s := src.Arr.v.(Array)
			e.noOverlay(d)
			e.noOverlay(s)
			tmp := make([]Value, n)
			for k := 0; k < n; k++ {
				tmp[k] = copyVal(s.E[src.Off+k])
			}
			for k := 0; k < n; k++ {
				d.E[dst.Off+k] = tmp[k]
			}
		}
		return mkI64(int64(n))
	case "delete":
		m := args[0].(MapV)
		if m.M != nil {
			if en := e.mapFind(m.M, args[1]); en != nil {
				for k, x := range m.M.entries {
					if x == en {
						m.M.entries = append(m.M.entries[:k:k], m.M.entries[k+1:]...)
						break
					}
				}
			}
		}
		return nil
	case "print", "println":
		return nil
	case "min", "max":
		if a, ok := args[0].(Int); ok {
			acc := a
			for _, x := range args[1:] {
				bb := x.(Int)
				if b.Name() == "min" {
					acc = iIte(iCmp("<", bb, acc), bb, acc)
				} else {
					acc = iIte(iCmp(">", bb, acc), bb, acc)
				}
			}
			return acc
		}
	}
	e.unsupported("builtin %s on %T", b.Name(), args[0])
	return nil
}

// ---------- string equality on the ID-string domain

func (e *Exec) strEq(a, b Str) Bool {
	if a.isLit() && b.isLit() {
		return mkBool(a.litVal() == b.litVal())
	}
	if len(b.P) == 1 && b.P[0].K == pRune {
		a, b = b, a
	}
	if len(a.P) == 1 && a.P[0].K == pRune {
		// string(r) is exactly one rune
		if !b.isLit() {
			e.unsupported("string(rune) compared with a symbolic string")
		}
		rs := []rune(b.litVal())
		if len(rs) != 1 {
			return mkBool(false)
		}
		if rs[0] == 0xFFFD {
			e.unsupported("string(rune) compared with U+FFFD")
		}
		return iCmp("==", a.P[0].I, mkInt(32, true, uint64(uint32(rs[0]))))
	}
	fa, fb := a.splitSep("/"), b.splitSep("/")
	if len(fa) != len(fb) {
		return mkBool(false)
	}
	acc := mkBool(true)
	for i := range fa {
		acc = bAnd(acc, e.fieldEq(fa[i], fb[i]))
		if acc.IsC && !acc.C {
			return acc
		}
	}
	return e.nmB(acc)
}

func (e *Exec) tokLit(t int, s string) Bool {
	key := fmt.Sprintf("%d|%s", t, s)
	if b, ok := e.tokLitEq[key]; ok {
		return b
	}
	n := e.fresh("tokeq")
	e.declare(n, "Bool")
	b := symBool(n)
	// a token equal to a literal that is not an integer is not an integer token, and not empty
	if _, err := parseIntLike(s); err != nil {
		e.sol.Send(fmt.Sprintf("(assert (=> %s (and (not tok%d_isint) (not tok%d_empty))))", n, t, t))
	} else {
		v, _ := parseIntLike(s)
		e.sol.Send(fmt.Sprintf("(assert (=> %s (and tok%d_isint (not tok%d_canon) (not tok%d_ovf) (= tok%d_val %s))))", n, t, t, t, t, bvLit(64, uint64(v))))
	}
	// two different literals cannot both equal the token
	for k, o := range e.tokLitEq {
		if strings.HasPrefix(k, fmt.Sprintf("%d|", t)) {
			e.sol.Send("(assert (not (and " + n + " " + o.Sym + ")))")
		}
	}
	e.tokLitEq[key] = b
	return b
}

func (e *Exec) fieldEq(x, y Str) Bool {
	if x.isLit() && y.isLit() {
		return mkBool(x.litVal() == y.litVal())
	}
	numeric := func(z Str) int {
		if len(z.P) == 1 && (z.P[0].K == pDec || z.P[0].K == pQuat || z.P[0].K == pDigit) {
			return z.P[0].K
		}
		return -1
	}
	if len(x.P) > 1 || len(y.P) > 1 || (numeric(x) >= 0 && numeric(y) >= 0 && numeric(x) != numeric(y)) {
		// character-wise comparison (forks on digit counts)
		cx, cy := e.chars(x, "string equality on composite fields"), e.chars(y, "string equality on composite fields")
		if len(cx) != len(cy) {
			return mkBool(false)
		}
		acc := mkBool(true)
		for k := range cx {
			acc = bAnd(acc, iCmp("==", charCode(cx[k], 8, false), charCode(cy[k], 8, false)))
		}
		return acc
	}
	var p, q Piece
	if len(x.P) == 0 {
		p = Piece{K: pLit, S: ""}
	} else {
		p = x.P[0]
	}
	if len(y.P) == 0 {
		q = Piece{K: pLit, S: ""}
	} else {
		q = y.P[0]
	}
	if p.K > q.K { // order: lit < dec < quat < digit < tok < opaque
		p, q = q, p
	}
	switch {
	case p.K == pLit && q.K == pDec:
		if v, ok := canonicalInt64(p.S); ok {
			return iCmp("==", q.I, mkI64(v))
		}
		return mkBool(false)
	case p.K == pDec && q.K == pDec:
		return iCmp("==", p.I, q.I)
	case p.K == pLit && q.K == pDigit:
		if len(p.S) == 1 && p.S[0] >= '0' && p.S[0] <= '9' {
			return iCmp("==", q.I, mkInt(q.I.W, q.I.Signed, uint64(p.S[0]-'0')))
		}
		return mkBool(false)
	case p.K == pDigit && q.K == pDigit:
		return iCmp("==", p.I, q.I)
	case p.K == pLit && q.K == pTok:
		t := q.Tok
		if p.S == "" {
			return symBool(fmt.Sprintf("tok%d_empty", t))
		}
		if v, ok := canonicalInt64(p.S); ok {
			return symBool(fmt.Sprintf("(and tok%d_isint tok%d_canon (not tok%d_ovf) (= tok%d_val %s))", t, t, t, t, bvLit(64, uint64(v))))
		}
		return e.tokLit(t, p.S)
	case p.K == pDec && q.K == pTok:
		t := q.Tok
		return symBool(fmt.Sprintf("(and tok%d_isint tok%d_canon (not tok%d_ovf) (= tok%d_val %s))", t, t, t, t, p.I.T()))
	case p.K == pTok && q.K == pTok:
		if p.Tok == q.Tok {
			return mkBool(true)
		}
		return symBool(fmt.Sprintf("(= tok%d_id tok%d_id)", p.Tok, q.Tok))
	case p.K == pQuat && q.K == pQuat:
		return iCmp("==", p.I, q.I)
	case p.K == pOpaque && q.K == pOpaque && p.Tok == q.Tok:
		return mkBool(true)
	}
	e.unsupported("string equality %s vs %s", x, y)
	return Bool{}
}

func parseIntLike(s string) (int64, error) {
	var v int64
	_, err := fmt.Sscanf(s, "%d", &v)
	if err != nil {
		return 0, err
	}
	// Sscanf accepts prefixes; require the whole string to be sign+digits
	for i, c := range s {
		if (c == '+' || c == '-') && i == 0 {
			continue
		}
		if c < '0' || c > '9' {
			return 0, fmt.Errorf("not int")
		}
	}
	return v, nil
}

// newToken declares a fresh token with its attributes and the axioms that tie identity to attributes.
func (e *Exec) newToken() int {
	e.tokCtr++
	t := e.tokCtr
	e.declare(fmt.Sprintf("tok%d_isint", t), "Bool")
	e.declare(fmt.Sprintf("tok%d_ovf", t), "Bool")
	e.declare(fmt.Sprintf("tok%d_canon", t), "Bool")
	e.declare(fmt.Sprintf("tok%d_empty", t), "Bool")
	e.declare(fmt.Sprintf("tok%d_val", t), sortBV(64))
	e.declare(fmt.Sprintf("tok%d_id", t), sortBV(64))
	// well-formedness: canon/ovf only for ints; empty is not an int; "-0"/"+x"/"0x" are non-canonical
	e.sol.Send(fmt.Sprintf("(assert (=> tok%d_canon tok%d_isint))", t, t))
	e.sol.Send(fmt.Sprintf("(assert (=> tok%d_ovf (and tok%d_isint (not tok%d_canon))))", t, t, t))
	e.sol.Send(fmt.Sprintf("(assert (=> tok%d_empty (not tok%d_isint)))", t, t))
	for o := 1; o < t; o++ {
		// same text => same attributes; same canonical integer => same text
		e.sol.Send(fmt.Sprintf("(assert (=> (= tok%d_id tok%d_id) (and (= tok%d_isint tok%d_isint) (= tok%d_ovf tok%d_ovf) (= tok%d_canon tok%d_canon) (= tok%d_empty tok%d_empty) (= tok%d_val tok%d_val))))", t, o, t, o, t, o, t, o, t, o, t, o))
		e.sol.Send(fmt.Sprintf("(assert (=> (and tok%d_canon tok%d_canon (not tok%d_ovf) (not tok%d_ovf) (= tok%d_val tok%d_val)) (= tok%d_id tok%d_id)))", t, o, t, o, t, o, t, o))
		e.sol.Send(fmt.Sprintf("(assert (=> (and tok%d_empty tok%d_empty) (= tok%d_id tok%d_id)))", t, o, t, o))
	}
	return t
}

// sortedKeys helper
func sortedKeys(m map[string]int) []string {
	ks := make([]string, 0, len(m))
	for k := range m {
		ks = append(ks, k)
	}
	sort.Strings(ks)
	return ks
}

var _ = math.Pi
