package main

// The ID-string domain: a string is a sequence of pieces.  See DESIGN.md §2.3.

import (
	"fmt"
	"regexp"
	"strconv"
	"strings"
)

const (
	pLit    = iota // literal text
	pDec           // decimal rendering of a signed 64-bit term (strconv.FormatInt(t,10))
	pQuat          // base-4 rendering of a signed 64-bit term (non-negative by obligation)
	pDigit         // one digit character, value term in 0..9 (0..3 for base-4 renderings)
	pTok           // arbitrary separator-free caller text with solver-chosen attributes
	pOpaque        // text we know nothing about (fmt.Sprintf results); only identity
	pRune          // string(r) for a symbolic rune r: only comparison with literals
)

type Piece struct {
	K   int
	S   string
	I   Int
	Tok int
}

type Str struct{ P []Piece }

func lit(s string) Str {
	if s == "" {
		return Str{}
	}
	return Str{P: []Piece{{K: pLit, S: s}}}
}

func (s Str) isLit() bool {
	for _, p := range s.P {
		if p.K != pLit {
			return false
		}
	}
	return true
}

func (s Str) litVal() string {
	var sb strings.Builder
	for _, p := range s.P {
		sb.WriteString(p.S)
	}
	return sb.String()
}

func normStr(ps []Piece) Str {
	var out []Piece
	for _, p := range ps {
		if (p.K == pDec || p.K == pQuat) && p.I.IsC {
			base := 10
			if p.K == pQuat {
				base = 4
			}
			p = Piece{K: pLit, S: strconv.FormatInt(p.I.sval(), base)}
		}
		if p.K == pDigit && p.I.IsC {
			p = Piece{K: pLit, S: strconv.FormatInt(p.I.sval(), 10)}
		}
		if p.K == pLit {
			if p.S == "" {
				continue
			}
			if n := len(out); n > 0 && out[n-1].K == pLit {
				out[n-1].S += p.S
				continue
			}
		}
		out = append(out, p)
	}
	return Str{P: out}
}

func strConcat(a, b Str) Str {
	ps := make([]Piece, 0, len(a.P)+len(b.P))
	ps = append(ps, a.P...)
	ps = append(ps, b.P...)
	return normStr(ps)
}

func decStr(i Int) Str { return normStr([]Piece{{K: pDec, I: i}}) }

// splitSep splits at every occurrence of sep inside literal pieces.  Symbolic
// pieces never contain "/" (dec, quat, digit by construction, tokens by the
// contract of strings.Split on the caller's string).
func (s Str) splitSep(sep string) []Str {
	var fields []Str
	var cur []Piece
	for _, p := range s.P {
		if p.K != pLit {
			cur = append(cur, p)
			continue
		}
		parts := strings.Split(p.S, sep)
		for i, part := range parts {
			if i > 0 {
				fields = append(fields, normStr(cur))
				cur = nil
			}
			if part != "" {
				cur = append(cur, Piece{K: pLit, S: part})
			}
		}
	}
	fields = append(fields, normStr(cur))
	return fields
}

var canonInt = regexp.MustCompile(`^(0|-?[1-9][0-9]*)$`)

func canonicalInt64(s string) (int64, bool) {
	if !canonInt.MatchString(s) {
		return 0, false
	}
	v, err := strconv.ParseInt(s, 10, 64)
	if err != nil {
		return 0, false
	}
	return v, true
}

func (s Str) String() string {
	var sb strings.Builder
	for _, p := range s.P {
		switch p.K {
		case pLit:
			sb.WriteString(p.S)
		case pDec:
			sb.WriteString("<dec " + p.I.T() + ">")
		case pQuat:
			sb.WriteString("<quat " + p.I.T() + ">")
		case pDigit:
			sb.WriteString("<digit " + p.I.T() + ">")
		case pTok:
			sb.WriteString(fmt.Sprintf("<tok%d>", p.Tok))
		case pOpaque:
			sb.WriteString(fmt.Sprintf("<opaque%d>", p.Tok))
		}
	}
	return sb.String()
}
