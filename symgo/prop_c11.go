package main

func init() {
	props["C11"] = &propDef{
		info: PropInfo{
			Bounds: []string{
				"decode kernel: horizontal zoom case-split over 1..31 (quick: 1..8, 12, 16, 24, 31), quadkey symbolic over all bits; encode kernel: zooms 1..16 (quick: 1..8, 10, 12), x and y symbolic over all bits, loops merged under an unwinding check",
				"entry points: round trip at equal zooms for z in {1,2,3,5,12}, v in {0,3,25}; different output zooms with zoom difference <= 2 per axis on 1..2 IDs of equal zoom and on a fine ID followed by a one-level-coarser ID, double-report freedom through a symbolic probe cell",
				"maxHeight == minHeight (plain vertical zoom) in the entry-point harnesses; the height-range (bit) form is C17",
			},
			Outside: []string{"encode kernel at zooms 17..31 with all bits symbolic (merged-loop query: solver unknown at 300 s; forked: > 1000 paths per zoom): there only the 6 most significant bits of x and y are symbolic (zooms 17, 24, 31 quick; 17, 20, 24, 28, 30, 31 thorough) — the decode kernel and the bijectivity of the reference cover 1..31 fully", "lists longer than 2", "zoom differences above 2", "entry points at horizontal zooms above 12 (path count grows as zoom^2)"},
		},
		insts: func(tier string) []*Instance {
			var is []*Instance
			zs := []int{1, 2, 3, 4, 5, 6, 7, 8, 10, 12}
			if tier == "thorough" {
				zs = nil
				for z := 1; z <= 31; z++ {
					zs = append(zs, z)
				}
			} else {
				zs = append(zs, 24, 31)
			}
			for _, z := range zs {
				for _, h := range []string{"VerifC11Encode", "VerifC11Decode", "VerifC11Bijective"} {
					if z > 16 && h == "VerifC11Encode" {
						continue // encode kernel beyond 16 levels: solver unknown at 300 s (merged) / path explosion (forked); not claimed
					}
					in := mk("transform", h, cs("z", z))
					in.Timeout = 300000
					in.Unwind = 40
					in.MaxPaths = 5000
					in.MaxSeconds = 3000
					is = append(is, in)
				}
			}
			for _, z := range []int{17, 20, 24, 28, 30, 31} {
				if tier == "quick" && z != 17 && z != 24 && z != 31 {
					continue
				}
				in := mk("transform", "VerifC11EncodeHigh", cs("z", z, "sym", 6))
				in.Timeout = 300000
				in.Unwind = 40
				is = append(is, in)
			}
			for _, z := range []int{1, 2, 3, 5, 12} {
				for _, v := range []int{0, 3, 25} {
					in := mk("transform", "VerifC11RoundTrip", cs("z", z, "v", v))
					in.Unwind = 40
					is = append(is, in)
				}
			}
			zc := [][5]int{{2, 2, 3, 3, 1}, {3, 3, 2, 2, 1}, {2, 3, 4, 2, 1}, {3, 1, 1, 3, 1}, {2, 2, 3, 3, 2}, {3, 3, 2, 2, 2}, {2, 2, 2, 2, 2}, {1, 0, 2, 1, 2}}
			if tier == "thorough" {
				zc = append(zc, [5]int{5, 5, 6, 6, 2}, [5]int{6, 26, 5, 25, 2}, [5]int{4, 4, 6, 4, 1})
			}
			mixes := [][4]int{{3, 2, 3, 2}, {2, 1, 2, 2}}
			if tier == "thorough" {
				mixes = append(mixes, [4]int{3, 3, 4, 3})
			}
			for _, c := range mixes {
				in := mk("transform", "VerifC11Zoomed", cs("z", c[0], "v", c[1], "oz", c[2], "ov", c[3], "n", 2, "mix", 1))
				in.Unwind = 80
				in.MaxSeconds = 1200
				is = append(is, in)
			}
			for _, c := range zc {
				in := mk("transform", "VerifC11Zoomed", cs("z", c[0], "v", c[1], "oz", c[2], "ov", c[3], "n", c[4], "mix", 0))
				in.Unwind = 80
				in.MaxSeconds = 1200
				is = append(is, in)
			}
			return is
		},
		tv: func(tier string, seed int64) []*TV {
			r := &rng{uint64(seed) + 11}
			var tvs []*TV
			for i := 0; i < 6; i++ {
				z := r.rangeI(1, 31)
				tvs = append(tvs, &TV{Harness: "VerifC11Encode", PkgDir: "transform", Unwind: 40, Case: cs("z", z), Inputs: map[string]string{"x": i2s(r.rangeI(0, (1<<z)-1)), "y": i2s(r.rangeI(0, (1<<z)-1))}})
				tvs = append(tvs, &TV{Harness: "VerifC11Decode", PkgDir: "transform", Unwind: 40, Case: cs("z", z), Inputs: map[string]string{"q": i2s(r.rangeI(0, (1<<(2*z))-1))}})
			}
			tvs = append(tvs, &TV{Harness: "VerifC11RoundTrip", PkgDir: "transform", Unwind: 40, Case: cs("z", 20, "v", 23), Inputs: map[string]string{"x": "85263", "y": "65423", "f": "-5"}})
			tvs = append(tvs, &TV{Harness: "VerifC11Zoomed", PkgDir: "transform", Unwind: 80, Case: cs("z", 2, "v", 2, "oz", 3, "ov", 3, "n", 1, "mix", 0), Inputs: map[string]string{"x0": "3", "y0": "1", "f0": "-2", "px": "6", "py": "3", "pf": "-3"}})
			return tvs
		},
	}
	props["C13"] = &propDef{
		info: PropInfo{
			Bounds: []string{
				"1..2 tiles (the second one at the same vertical zoom, one level finer or one level coarser) with symbolic hZoom (0..35), x, y, z and symbolic base offset (|off| <= 2^30); (tile vZoom, base exponent, output vZoom) case-split over a sample (quick 8, thorough 30 combinations); vertical run length per tile assumed <= 3 (quick) / 4 (thorough)",
				"expected vertical range = the result of the real ConvertAltitudekeyToMinMaxZ (whose covering property is C12); set equality and exactly-once through a symbolic probe ID",
				"spatial variant: one tile, |hZoom - outputVZoom| <= 2, run length <= 2, compared as a set with the expansion of the extended results",
			},
			Outside: []string{"more than 2 tiles", "vertical runs longer than the stated bound (same loop)", "offsets beyond 2^30"},
		},
		insts: func(tier string) []*Instance {
			var is []*Instance
			combos := [][3]int{{25, 25, 25}, {24, 25, 25}, {25, 25, 26}, {14, 14, 25}, {3, 25, 2}, {26, 25, 25}, {0, 0, 0}, {10, 12, 11}}
			if tier == "thorough" {
				for zk := 0; zk <= 35; zk += 7 {
					for _, e := range []int{0, 25, 35} {
						for _, ov := range []int{0, 25} {
							combos = append(combos, [3]int{zk, e, ov})
						}
					}
				}
			}
			mr := 3
			if tier == "thorough" {
				mr = 4
			}
			for _, c := range combos {
				for n := 1; n <= 2; n++ {
					for _, dz := range []int{0, 1, -1} {
						if dz != 0 && (n == 1 || c[0]+dz < 0 || c[0]+dz > 35) {
							continue
						}
						in := mk("transform", "VerifC13Tiles", cs("n", n, "zk", c[0], "e", c[1], "ov", c[2], "maxrun", mr, "dz", dz))
						in.Unwind = 40
						is = append(is, in)
					}
				}
			}
			for _, c := range [][4]int{{3, 25, 25, 3}, {3, 25, 25, 4}, {4, 25, 25, 3}, {2, 3, 25, 4}, {25, 25, 25, 25}, {1, 25, 25, 3}} {
				in := mk("transform", "VerifC13Spatial", cs("h", c[0], "zk", c[1], "e", c[2], "ov", c[3]))
				in.Unwind = 80
				is = append(is, in)
			}
			return is
		},
		tv: func(tier string, seed int64) []*TV {
			return []*TV{
				{Harness: "VerifC13Tiles", PkgDir: "transform", Unwind: 40, Case: cs("n", 1, "zk", 25, "e", 25, "ov", 25, "maxrun", 3, "dz", 0), Inputs: map[string]string{"off": "-2", "h0": "20", "x0": "85263", "y0": "65423", "z0": "3", "ph": "20", "px": "85263", "py": "65423", "pf": "5"}},
				{Harness: "VerifC13Tiles", PkgDir: "transform", Unwind: 40, Case: cs("n", 2, "zk", 24, "e", 25, "ov", 25, "maxrun", 3, "dz", 0), Inputs: map[string]string{"off": "0", "h0": "5", "x0": "1", "y0": "2", "z0": "3", "h1": "5", "x1": "1", "y1": "2", "z1": "3", "ph": "5", "px": "1", "py": "2", "pf": "7"}},
				{Harness: "VerifC13Spatial", PkgDir: "transform", Unwind: 80, Case: cs("h", 3, "zk", 25, "e", 25, "ov", 4), Inputs: map[string]string{"off": "0", "x": "5", "y": "6", "z": "1000000"}},
			}
		},
	}
}
