#!/bin/bash
# development helper: run thorough tiers sequentially without writing evidence
cd /verif
for p in "$@"; do
  s=$(date +%s)
  out=$(timeout 7200 ./bin/symgo check $p -tier thorough -no-evidence 2>&1)
  rc=$?
  e=$(date +%s)
  echo "== $p thorough rc=$rc $((e-s))s"
  echo "$out" | grep -E "^VIOLATION|^KNOWN|INCONCLUSIVE|^property=" | cut -c1-300 | head -8
done
