#!/usr/bin/env python3
"""Regenerates /verif/MANIFEST.json from the table below (development helper; the manifest is committed)."""
import json
claimed = {
 "C01": ("exact IEEE claim for the vertical kernel (cvc5, FloatingPoint theory), banded claim for the longitude kernel in the relaxed real+rounding-error encoding, structure of the list API; known findings listed", "§3 C01"),
 "C02": ("corner altitudes exact, corner/centre longitudes within 1e-11 degrees, corner order, shared faces (exact IEEE on the kernels); latitude rows case-split to concrete values", "§3 C02"),
 "C03": ("dyadic refinement/ancestor oracle with a symbolic probe cell; every zoom-out distance, zoom-in <= 3 levels; 1-2 IDs", "§3 C03"),
 "C04": ("region equality through a symbolic unit cell, merges-all-it-can through a symbolic target voxel, idempotence; 1-3 IDs and complete child sets", "§3 C04"),
 "C05": ("ancestor-or-equal oracle for extended IDs; the radix tree executed from its SSA with a hit/miss model of symbolic child-table indices", "§3 C05"),
 "C06": ("VERTICAL segments only (one concrete column, hZoom 20, vZoom in {0,10,25,26,33,34,35}): for altitudes on the 2^-20 m grid with end cells <= 4 (thorough 8) apart the result is exactly the contiguous run of cells, decided over the integers; arbitrary doubles (exact IEEE) for adjacent cells at vZoom 0/10 in the thorough tier; both ends in one voxel gives that single ID for any points. Slanted and horizontal segments (division by 360, libm inside the recursion) are NOT decided", "§3 C06"),
 "C07": ("modular translation oracle, identity, inverse, composition; zoom case-split, everything else symbolic", "§3 C07"),
 "C08": ("two-way symbolic membership against the stencil of modular shifts; counts, no-self, symmetry", "§3 C08"),
 "C09": ("zoom-in/zoom-out/merge/overlap round trips on symbolic IDs; point-level vertical nesting in exact IEEE arithmetic", "§3 C09"),
 "C10": ("token model of arbitrary field texts for the notation round trip; probe-cell region equality for the expansion", "§3 C10"),
 "C11": ("bit-interleave oracle for encode (zoom <= 16) and decode (zoom <= 31), bijectivity of the reference, entry-point round trips, exactly-once reporting", "§3 C11"),
 "C12": ("index, offset and one zoom symbolic per query, remaining zoom differences case-split; oracle in exact 128-bit ghost integers", "§3 C12"),
 "C13": ("exactly-once membership of (hZoom,x,y,f) through a symbolic probe, all-or-nothing on errors, spatial variant = expansion", "§3 C13"),
 "C15": ("token model: every string with <= 7 fields; every int64 zoom; every double longitude; latitude edge up to 1e-10; no-panic obligations on every path", "§3 C15"),
 "C16": ("every operation executed twice with all map iteration orders (<= 4 keys, forked), on the swapped and on the duplicated list; results compared as sets by the solver; frame check for the caller's slices", "§3 C16"),
 "C17": ("calcBitIndex range, monotonicity and clamping for output zooms <= 3 (thorough 4) in the relaxed encoding with monotone rounding; forward run for three zoom pairs; error cases", "§3 C17"),
 "C18": ("structure only, with the third-party transform as uninterpreted functions: argument order, source/target order, altitude pass-through, list length/order, unknown EPSG codes", "§3 C18"),
 "C19": ("frame argument: no symbolic path of the instrumented harnesses writes memory it did not allocate; SSA scan for writable / reference-typed package-level state", "§3 C19"),
 "C20": ("set helpers by symbolic membership, Max/Min, arithmetic shift against 128-bit ghost floor, Combinations enumerated on the real code", "§3 C20"),
}
levels = {"C19": "other"}
notes_extra = {"C06": " — a PARTIAL decision of C06: only vertical segments; the chain connectivity and the corner cases of slanted segments are outside the claim", "C18": " — the numeric claims of C18 (EPSG:3857 is spherical Mercator on 6378137 m; round trip within 2e-10 degrees) are NOT decided: third-party transcendental code"}
na = {
 "C06": "line voxelisation: the recursion over float midpoints (division by 360 / libm inside a recursion of input-dependent depth) could not be brought within reach of the installed solvers in the time available; see DESIGN.md §4",
 "C14": "corridor: depends on C06's line, on GJK distance (closest_go) and WGS84 geodesy (geodesy_go) numerics; only a stubbed structural claim was within reach and was not completed; see DESIGN.md §4",
 "C18": "projection: the numeric claims need third-party transcendental code (wgs84); the structural claims with the transform stubbed were not completed; see DESIGN.md §4",
}
import os
for extra in ("C06","C14","C18"):
    if os.path.exists('/verif/symgo/prop_%s.go' % extra.lower()):
        pass
checks = []
for pid in sorted(claimed):
    text, ref = claimed[pid]
    checks.append({
        "property_id": pid,
        "quick_cmd": "/verif/bin/symgo check %s -tier quick" % pid,
        "thorough_cmd": "/verif/bin/symgo check %s -tier thorough" % pid,
        "evidence_file": "/verif/evidence/%s.json" % pid,
        "replay_cmd_template": "/verif/bin/symgo replay {path}",
        "engine": "symgo",
        "level_claimed": {"category": levels.get(pid, "model_checking"), "text": "bounded symbolic model checking of the real code (go/ssa of /repo's working tree -> SMT-LIB2): " + text + notes_extra.get(pid, ""), "design_ref": "DESIGN.md " + ref},
        "level_note": "trusted: go/packages+go/ssa, the symgo executor/printers (validated every run: same harness run natively and by the interpreter on concrete vectors), z3 4.8.12 / z3 5.1.0 / cvc5 1.0.3, stub contracts listed in the evidence; bounds and what lies outside them are in the evidence file",
        "technique": "SSA symbolic execution + SMT (bit-vectors / floating point / reals with rounding error), native replay of counterexamples",
    })
m = {
 "version": 1,
 "setup_cmd": "cd /verif/symgo && GOFLAGS=-mod=mod GOPROXY=off GOSUMDB=off GOTOOLCHAIN=local go build -o /verif/bin/symgo .",
 "hooks": {
  "guard": "verif",
  "enable": "no hooks are compiled into /repo: harnesses are injected with go/packages and `go test -overlay` overlays (files named zz_verif_*.go exist only in the overlay); the build tag verif is reserved and unused",
  "baseline_off_cmd": "cd /repo && go test -vet=off -count=1 ./...",
  "source_commits": [],
  "add_only": True,
 },
 "engines": [{"name": "symgo", "path": "/verif/symgo", "serves_properties": sorted(claimed), "kind_free_text": "bounded symbolic execution of go/ssa -> SMT-LIB2 (z3 4.8.12, z3 5.1.0, cvc5 1.0.3) with native replay of solver models; harnesses in /verif/harness"}],
 "checks": checks,
 "not_applicable": [{"property_id": k, "reason": v} for k, v in sorted(na.items()) if k not in claimed],
 "notes": "fix: commits in /repo and open known findings are listed in /verif/known_findings.json; DESIGN.md records which check caught which defect and which seeded change.",
}
json.dump(m, open('/verif/MANIFEST.json', 'w'), indent=1)
print("claimed", len(checks), "not_applicable", len(m["not_applicable"]))
