#!/bin/bash
# development helper: run the quick tier of the given properties sequentially, summarising
cd /verif
for p in "$@"; do
  s=$(date +%s)
  out=$(timeout 1800 ./bin/symgo check $p -no-evidence 2>&1)
  rc=$?
  e=$(date +%s)
  echo "== $p rc=$rc $((e-s))s"
  echo "$out" | grep -E "^VIOLATION|^KNOWN|INCONCLUSIVE|^property=" | cut -c1-400 | head -8
done
