#!/bin/bash
# development helper: run quick checks writing evidence
cd /verif
for p in "$@"; do
  s=$(date +%s)
  out=$(timeout 1800 ./bin/symgo check $p 2>&1)
  rc=$?
  e=$(date +%s)
  echo "== $p rc=$rc $((e-s))s"
  echo "$out" | grep -E "^VIOLATION|^KNOWN|INCONCLUSIVE|^property=" | cut -c1-300 | head -6
done
