package operated

// C08 — neighbourhood queries return exactly the surrounding voxels.

func vShiftRef(h, x, y, v, f, dx, dy, dv int64) string {
	n := int64(1) << uint(h)
	return vID5(h, vMod(x+dx, n), vMod(y+dy, n), v, f+dv)
}

func vMember(list []string, s string) bool {
	found := false
	for i := 0; i < len(list); i++ {
		if list[i] == s {
			found = true
		}
	}
	return found
}

func vAbs(a int64) int64 {
	if a < 0 {
		return -a
	}
	return a
}

// vStencil: kind 6 = faces, 8 = horizontal ring, 26 = full shell.
func vInStencil(kind, dx, dy, dv int64) bool {
	if dx == 0 && dy == 0 && dv == 0 {
		return false
	}
	switch kind {
	case 6:
		return vAbs(dx)+vAbs(dy)+vAbs(dv) == 1
	case 8:
		return dv == 0
	}
	return true
}

// VerifC08Stencil: cases h, kind (6, 8, 26); symbolic voxel.
func VerifC08Stencil() {
	h := vCase("h")
	kind := vCase("kind")
	n := int64(1) << uint(h)
	x := vNondetInt64("x")
	y := vNondetInt64("y")
	f := vNondetInt64("f")
	v := vNondetInt64("v")
	vAssume(0 <= x && x < n && 0 <= y && y < n)
	vAssume(0 <= v && v <= 35)
	vAssume(-(int64(1)<<40) < f && f < int64(1)<<40)
	id := vID5(h, x, y, v, f)
	var got []string
	switch kind {
	case 6:
		got = Get6spatialIdsAdjacentToFaces(id)
	case 8:
		got = Get8spatialIdsAroundHorizontal(id)
	default:
		got = Get26spatialIdsAroundVoxel(id)
	}
	vAssert(int64(len(got)) == kind, "the query returns one ID per stencil offset")
	// every stencil offset is present (symbolic offset), and every result is some stencil offset
	dx := vNondetInt64("dx")
	dy := vNondetInt64("dy")
	dv := vNondetInt64("dv")
	vAssume(-1 <= dx && dx <= 1 && -1 <= dy && dy <= 1 && -1 <= dv && dv <= 1)
	vAssume(vInStencil(kind, dx, dy, dv))
	vAssert(vMember(got, vShiftRef(h, x, y, v, f, dx, dy, dv)), "the shift by every stencil offset is returned")
	var refs []string
	for ax := int64(-1); ax <= 1; ax++ {
		for ay := int64(-1); ay <= 1; ay++ {
			for av := int64(-1); av <= 1; av++ {
				if vInStencil(kind, ax, ay, av) {
					refs = append(refs, vShiftRef(h, x, y, v, f, ax, ay, av))
				}
			}
		}
	}
	allHit := true
	for i := 0; i < len(got); i++ {
		if !vMember(refs, got[i]) {
			allHit = false
		}
	}
	vAssert(allHit, "every returned ID is the shift by some stencil offset")
	if n >= 3 {
		self, dup := false, false
		for i := 0; i < len(got); i++ {
			if got[i] == id {
				self = true
			}
			for j := i + 1; j < len(got); j++ {
				if got[i] == got[j] {
					dup = true
				}
			}
		}
		vAssert(!self, "a voxel is not its own neighbour when the stencil is narrower than the grid")
		vAssert(!dup, "neighbours are pairwise distinct when the stencil is narrower than the grid")
	}
	vReach("end")
}

// VerifC08Symmetry: b in N(a) iff a in N(b).
func VerifC08Symmetry() {
	h := vCase("h")
	kind := vCase("kind")
	n := int64(1) << uint(h)
	v := vNondetInt64("v")
	vAssume(0 <= v && v <= 35)
	var x, y, f [2]int64
	var id [2]string
	for i := int64(0); i < 2; i++ {
		x[i] = vNondetInt64(vN("x", i))
		y[i] = vNondetInt64(vN("y", i))
		f[i] = vNondetInt64(vN("f", i))
		vAssume(0 <= x[i] && x[i] < n && 0 <= y[i] && y[i] < n)
		vAssume(-(int64(1)<<40) < f[i] && f[i] < int64(1)<<40)
		id[i] = vID5(h, x[i], y[i], v, f[i])
	}
	var na, nb []string
	switch kind {
	case 6:
		na, nb = Get6spatialIdsAdjacentToFaces(id[0]), Get6spatialIdsAdjacentToFaces(id[1])
	case 8:
		na, nb = Get8spatialIdsAroundHorizontal(id[0]), Get8spatialIdsAroundHorizontal(id[1])
	default:
		na, nb = Get26spatialIdsAroundVoxel(id[0]), Get26spatialIdsAroundVoxel(id[1])
	}
	vAssert(vMember(na, id[1]) == vMember(nb, id[0]), "the neighbour relation is symmetric")
	vReach("end")
}

// VerifC08Layers: N-layer query.  Cases h, H, V, n (1 or 2 voxels).
func VerifC08Layers() {
	h := vCase("h")
	H := vCase("H")
	V := vCase("V")
	cnt := vCase("n")
	n := int64(1) << uint(h)
	v := vNondetInt64("v")
	vAssume(0 <= v && v <= 35)
	var x, y, f [2]int64
	ids := make([]string, 0, 2)
	for i := int64(0); i < cnt; i++ {
		x[i] = vNondetInt64(vN("x", i))
		y[i] = vNondetInt64(vN("y", i))
		f[i] = vNondetInt64(vN("f", i))
		vAssume(0 <= x[i] && x[i] < n && 0 <= y[i] && y[i] < n)
		vAssume(-(int64(1)<<40) < f[i] && f[i] < int64(1)<<40)
		ids = append(ids, vID5(h, x[i], y[i], v, f[i]))
	}
	vFrameBegin("GetNspatialIdsAroundVoxcels")
	got, err := GetNspatialIdsAroundVoxcels(ids, H, V)
	vFrameEnd()
	vAssert(err == nil, "non-negative layer counts are accepted")
	// completeness: symbolic voxel choice and symbolic non-zero offset
	if H > 0 || V > 0 {
		dx := vNondetInt64("dx")
		dy := vNondetInt64("dy")
		dv := vNondetInt64("dv")
		k := vNondetInt64("k")
		vAssume(0 <= k && k < cnt)
		vAssume(-H <= dx && dx <= H && -H <= dy && dy <= H && -V <= dv && dv <= V)
		vAssume(!(dx == 0 && dy == 0 && dv == 0))
		kx, ky, kf := x[0], y[0], f[0]
		if k == 1 {
			kx, ky, kf = x[1], y[1], f[1]
		}
		vAssert(vMember(got, vShiftRef(h, kx, ky, v, kf, dx, dy, dv)), "the shift of every listed voxel by every non-zero offset within the layers is returned")
	} else {
		vAssert(len(got) == 0, "zero layers give no neighbours")
	}
	// soundness and no duplicates
	var refs []string
	for c := int64(0); c < cnt; c++ {
		for ax := -H; ax <= H; ax++ {
			for ay := -H; ay <= H; ay++ {
				for av := -V; av <= V; av++ {
					if !(ax == 0 && ay == 0 && av == 0) {
						refs = append(refs, vShiftRef(h, x[c], y[c], v, f[c], ax, ay, av))
					}
				}
			}
		}
	}
	allHit, dup := true, false
	for i := 0; i < len(got); i++ {
		if !vMember(refs, got[i]) {
			allHit = false
		}
		for j := i + 1; j < len(got); j++ {
			if got[i] == got[j] {
				dup = true
			}
		}
	}
	vAssert(allHit, "every returned ID is the shift of a listed voxel by a non-zero offset within the layers")
	vAssert(!dup, "no ID is returned twice")
	if cnt == 1 && 2*H+1 <= n {
		vAssert(int64(len(got)) == (2*H+1)*(2*H+1)*(2*V+1)-1, "(2H+1)^2(2V+1)-1 distinct neighbours when the stencil is narrower than the grid")
		vAssert(!vMember(got, ids[0]), "the voxel itself is not returned when the stencil is narrower than the grid")
	}
	vReach("end")
}
