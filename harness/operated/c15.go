package operated

// C15 (operated) — the shift helpers return the empty ID for malformed input, the N-layer
// query rejects negative layer counts; nothing panics.

func VerifC15Shift() {
	s := vNondetString("s", 7)
	vAssume(!vWF(s, 5))
	vAssume(vIdxSane(s))
	vAssume(vZoomMax(s, 0, 3) && vZoomMax(s, 3, 3))
	dx := vNondetInt64("dx")
	dy := vNondetInt64("dy")
	dv := vNondetInt64("dv")
	vAssert(GetShiftingSpatialID(s, dx, dy, dv) == "", "a malformed ID gives the empty ID")
	vReach("end")
}

func VerifC15Neighbours() {
	s := vNondetString("s", 7)
	vAssume(!vWF(s, 5))
	vAssume(vIdxSane(s))
	vAssume(vZoomMax(s, 0, 3) && vZoomMax(s, 3, 3))
	kind := vCase("kind")
	var got []string
	switch kind {
	case 6:
		got = Get6spatialIdsAdjacentToFaces(s)
	case 8:
		got = Get8spatialIdsAroundHorizontal(s)
	default:
		got = Get26spatialIdsAroundVoxel(s)
	}
	bad := false
	for i := 0; i < len(got); i++ {
		if got[i] != "" {
			bad = true
		}
	}
	vAssert(!bad, "a malformed ID never yields a non-empty neighbour ID")
	vReach("end")
}

func VerifC15Layers() {
	h := vNondetInt64("h")
	v := vNondetInt64("v")
	vAssume(h < 0 || v < 0)
	got, err := GetNspatialIdsAroundVoxcels([]string{"3/1/2/3/-1"}, h, v)
	vAssert(err != nil, "a negative layer count is an error")
	vAssert(len(got) == 0, "and nothing is returned")
	vReach("end")
}
