package operated

// C07 — shifting an ID is modular translation on the grid.

func vMod(a, n int64) int64 { // mathematical a mod n for n > 0, |a| small enough not to overflow
	r := a % n
	if r < 0 {
		r += n
	}
	return r
}

// VerifC07Shift: case h; symbolic x, y, f, v, dx, dy, dv.
func VerifC07Shift() {
	h := vCase("h")
	n := int64(1) << uint(h)
	x := vNondetInt64("x")
	y := vNondetInt64("y")
	f := vNondetInt64("f")
	v := vNondetInt64("v")
	dx := vNondetInt64("dx")
	dy := vNondetInt64("dy")
	dv := vNondetInt64("dv")
	vAssume(0 <= x && x < n && 0 <= y && y < n)
	vAssume(0 <= v && v <= 35)
	vAssume(-(int64(1)<<61) < f && f < int64(1)<<61 && -(int64(1)<<61) < dv && dv < int64(1)<<61)
	vAssume(-4*n <= dx && dx <= 4*n && -4*n <= dy && dy <= 4*n)
	id := vID5(h, x, y, v, f)
	got := GetShiftingSpatialID(id, dx, dy, dv)
	want := vID5(h, vMod(x+dx, n), vMod(y+dy, n), v, f+dv)
	vAssert(got == want, "shift = (x+dx mod 2^h, y+dy mod 2^h, f+dv) at the same zooms")
	vAssert(GetShiftingSpatialID(id, 0, 0, 0) == id, "zero shift is the identity")
	back := GetShiftingSpatialID(got, -dx, -dy, -dv)
	vAssert(back == id, "shifting back by the negated offsets restores the ID")
	vReach("end")
}

// VerifC07Compose: two shifts compose to the shift by the sum.
func VerifC07Compose() {
	h := vCase("h")
	n := int64(1) << uint(h)
	x := vNondetInt64("x")
	y := vNondetInt64("y")
	f := vNondetInt64("f")
	v := vNondetInt64("v")
	vAssume(0 <= x && x < n && 0 <= y && y < n)
	vAssume(0 <= v && v <= 35)
	vAssume(-(int64(1)<<60) < f && f < int64(1)<<60)
	var d [6]int64
	for i := 0; i < 6; i++ {
		d[i] = vNondetInt64(vN("d", int64(i)))
	}
	vAssume(-2*n <= d[0] && d[0] <= 2*n && -2*n <= d[1] && d[1] <= 2*n)
	vAssume(-2*n <= d[3] && d[3] <= 2*n && -2*n <= d[4] && d[4] <= 2*n)
	vAssume(-(int64(1)<<60) < d[2] && d[2] < int64(1)<<60 && -(int64(1)<<60) < d[5] && d[5] < int64(1)<<60)
	id := vID5(h, x, y, v, f)
	two := GetShiftingSpatialID(GetShiftingSpatialID(id, d[0], d[1], d[2]), d[3], d[4], d[5])
	one := GetShiftingSpatialID(id, d[0]+d[3], d[1]+d[4], d[2]+d[5])
	vAssert(two == one, "shift(shift(id,a),b) == shift(id,a+b)")
	vReach("end")
}
