package transform

// C12 — altitude-key conversion never loses altitude and is exact where it can be.
//
// Oracle in ghost integers scaled by 2^35 so that every cell edge is an integer.  The
// oracle is computed before the library call so that its (ghost) obligations sit in the
// shared prefix of all paths.

const vS = int64(35)

// VerifC12Forward: spatial-ID vertical index -> altitude-key range.
// Case split: zi (source zoom) and d2 = zo - e; symbolic: f, zo (hence e), off.
func VerifC12Forward() {
	f := vNondetInt64("f")
	zi := vCase("zi")
	d2 := vCase("d2")
	zo := vNondetInt64("zo")
	off := vNondetInt64("off")
	ob := vCase("offbits")
	e := zo - d2
	vAssume(0 <= zo && zo <= 35)
	vAssume(0 <= e && e <= 35)
	vAssume(-(int64(1)<<ob) <= off && off <= int64(1)<<ob)

	res := int64(1) << zi
	valid := -res <= f && f <= res-1
	if !valid {
		_, _, err := ConvertZToMinMaxAltitudekey(f, zi, zo, e, off)
		vAssert(err != nil, "source index outside its zoom's range is an error")
		vReach("end")
		return
	}
	// source cell [lo,hi) and key cell size 2^csh, offset o, all in units of 2^-35 m
	lo := vWShl(vWB(f, 36), 25-zi+vS)
	hi := vWShl(vWB(f+1, 36), 25-zi+vS)
	o := vWShl(vWB(off, ob), vS)
	csh := vS - d2
	one := vW(1)
	// exact covering range
	eMin := vWShr(vWAdd(lo, o), csh)
	eMax := vWShr(vWSub(vWAdd(hi, o), one), csh)
	// interval widened outward to whole metres
	loW := vWShl(vWShr(lo, vS), vS)
	hiW := vWShl(vWShr(vWSub(vWAdd(hi, vWShl(one, vS)), one), vS), vS)
	wMin := vWShr(vWAdd(loW, o), csh)
	wMax := vWShr(vWSub(vWAdd(hiW, o), one), csh)
	top := vW((int64(1) << zo) - 1)
	zero := vW(0)

	mn, mx, err := ConvertZToMinMaxAltitudekey(f, zi, zo, e, off)

	if err != nil {
		vAssert(vWLt(wMin, zero) || vWLt(top, wMax), "no error when even the metre-widened range fits")
		vReach("end")
		return
	}
	vAssert(mn <= mx, "min <= max")
	vAssert(vWLe(vW(mn), eMin) && vWLe(eMax, vW(mx)), "range contains every key cell intersecting the source cell (no altitude lost)")
	vAssert(vWLe(wMin, vW(mn)) && vWLe(vW(mx), wMax), "range stays within the cells intersecting the metre-widened interval")
	if zi <= 25 {
		vAssert(vWEq(vW(mn), eMin) && vWEq(vW(mx), eMax), "exact when the source cell is at least one metre tall")
	}
	vAssert(vWLe(zero, eMin) && vWLe(eMax, top), "success only if the exact covering range is inside the target index range")
	vReach("end")
}

// VerifC12Reverse: altitude key -> spatial-ID vertical index range.
// Case split: zo (target zoom) and d3 = e - zk; symbolic: k, zk (hence e), off.
func VerifC12Reverse() {
	k := vNondetInt64("k")
	zk := vNondetInt64("zk")
	zo := vCase("zo")
	d3 := vCase("d3")
	off := vNondetInt64("off")
	ob := vCase("offbits")
	e := zk + d3
	vAssume(0 <= zk && zk <= 35)
	vAssume(0 <= e && e <= 35)
	vAssume(-(int64(1)<<ob) <= off && off <= int64(1)<<ob)

	valid := 0 <= k && k <= (int64(1)<<zk)-1
	if !valid {
		_, _, err := ConvertAltitudekeyToMinMaxZ(k, zk, zo, e, off)
		vAssert(err != nil, "key outside its zoom's range is an error")
		vReach("end")
		return
	}
	one := vW(1)
	o := vWShl(vWB(off, ob), vS)
	ksh := d3 + vS
	lo := vWSub(vWShl(vWB(k, 36), ksh), o)
	hi := vWSub(vWShl(vWB(k+1, 36), ksh), o)
	tsh := 25 - zo + vS
	eMin := vWShr(lo, tsh)
	eMax := vWShr(vWSub(hi, one), tsh)
	loW := vWShl(vWShr(lo, vS), vS)
	hiW := vWShl(vWShr(vWSub(vWAdd(hi, vWShl(one, vS)), one), vS), vS)
	wMin := vWShr(loW, tsh)
	wMax := vWShr(vWSub(hiW, one), tsh)
	bot := vW(-(int64(1) << zo))
	top := vW((int64(1) << zo) - 1)

	mn, mx, err := ConvertAltitudekeyToMinMaxZ(k, zk, zo, e, off)

	if err != nil {
		vAssert(vWLt(wMin, bot) || vWLt(top, wMax), "no error when even the metre-widened range fits")
		vReach("end")
		return
	}
	vAssert(mn <= mx, "min <= max")
	vAssert(vWLe(vW(mn), eMin) && vWLe(eMax, vW(mx)), "range contains every cell intersecting the key's altitude interval (no altitude lost)")
	vAssert(vWLe(wMin, vW(mn)) && vWLe(vW(mx), wMax), "range stays within the cells intersecting the metre-widened interval")
	if d3 >= 0 {
		vAssert(vWEq(vW(mn), eMin) && vWEq(vW(mx), eMax), "exact when the key cell is at least one metre tall")
	}
	vAssert(vWLe(bot, eMin) && vWLe(eMax, top), "success only if the exact covering range is inside the target index range")
	vReach("end")
}

// VerifC12Mutual: in the exact regime the two directions are mutually consistent.
// Case split: zi in 0..25 and d3 = e - zk >= 0; symbolic: f, k, zk, off.
func VerifC12Mutual() {
	f := vNondetInt64("f")
	k := vNondetInt64("k")
	zi := vCase("zi")
	d3 := vCase("d3")
	zk := vNondetInt64("zk")
	off := vNondetInt64("off")
	ob := vCase("offbits")
	e := zk + d3
	vAssume(0 <= e && e <= 35)
	vAssume(0 <= zk && zk <= e)
	vAssume(-(int64(1)<<ob) <= off && off <= int64(1)<<ob)
	vAssume(-(int64(1)<<zi) <= f && f <= (int64(1)<<zi)-1)
	vAssume(0 <= k && k <= (int64(1)<<zk)-1)

	kmn, kmx, err1 := ConvertZToMinMaxAltitudekey(f, zi, zk, e, off)
	fmn, fmx, err2 := ConvertAltitudekeyToMinMaxZ(k, zk, zi, e, off)
	if err1 == nil && err2 == nil {
		vAssert((kmn <= k && k <= kmx) == (fmn <= f && f <= fmx), "k in range(f) iff f in range(k)")
	}
	vReach("end")
}
