package transform

import "strconv"

func vID5(h, x, y, v, f int64) string {
	return strconv.FormatInt(h, 10) + "/" + strconv.FormatInt(x, 10) + "/" + strconv.FormatInt(y, 10) + "/" + strconv.FormatInt(v, 10) + "/" + strconv.FormatInt(f, 10)
}

func vID4(z, f, x, y int64) string {
	return strconv.FormatInt(z, 10) + "/" + strconv.FormatInt(f, 10) + "/" + strconv.FormatInt(x, 10) + "/" + strconv.FormatInt(y, 10)
}

func vID3(h, x, y int64) string {
	return strconv.FormatInt(h, 10) + "/" + strconv.FormatInt(x, 10) + "/" + strconv.FormatInt(y, 10)
}

func vID2(v, f int64) string {
	return strconv.FormatInt(v, 10) + "/" + strconv.FormatInt(f, 10)
}

// vInter1: the dyadic cells a (zoom za) and b (zoom zb) of one axis intersect, i.e. one is an
// ancestor-or-equal of the other; >> on int64 is the floor semantics the grid uses below ground.
func vInter1(za, a, zb, b int64) bool {
	if za <= zb {
		return b>>uint(zb-za) == a
	}
	return a>>uint(za-zb) == b
}

func vN(s string, i int64) string { return s + strconv.FormatInt(i, 10) }
