package transform

import (
	"fmt"
	"math"
	"sort"
	"strconv"
	"strings"
)

// VerifC10StrModel is a check of the ENGINE, kept with C10 (string notation): the character-level string model
// (len, indexing, slicing, range over a string, ordering, Count / SplitN / FieldsFunc on ID texts) must agree with
// the arithmetic meaning of strconv's renderings.  A wrong model shows up as a solver counterexample that does not
// reproduce natively (INCONCLUSIVE), a right one proves every assertion.  Case k selects the facet.
func VerifC10StrModel() {
	switch vCase("k") {
	case 0: // decimal rendering: length, characters, range, slicing
		v := vNondetInt64("v")
		vAssume(-100000 <= v && v <= 100000)
		s := strconv.FormatInt(v, 10)
		n := int64(len(s))
		vAssert(1 <= n && n <= 7, "length of a decimal rendering of |v| <= 100000")
		var acc int64
		neg := false
		for i, r := range s {
			if i == 0 && r == '-' {
				neg = true
				continue
			}
			vAssert('0' <= r && r <= '9', "every other character is a digit")
			acc = acc*10 + int64(r-'0')
		}
		if neg {
			acc = -acc
		}
		vAssert(acc == v, "range over the rendering reconstructs the value")
		vAssert((s[0] == '-') == (v < 0) && (s[0] == '0') == (v == 0), "first byte: sign, and 0 only for zero")
		t := s[1:]
		vAssert(int64(len(t)) == n-1 && s[:1]+t == s, "slicing splits the text")
		vAssert((n == 1) == (0 <= v && v <= 9), "one character iff a single digit")
	case 1: // base-4 rendering
		q := vNondetInt64("q")
		vAssume(0 <= q && q < 4096)
		u := strconv.FormatInt(q, 4)
		vAssert(1 <= len(u) && len(u) <= 6, "length of a base-4 rendering below 4^6")
		var acc int64
		for _, r := range u {
			vAssert('0' <= r && r <= '3', "base-4 digits")
			acc = acc*4 + int64(r-'0')
		}
		vAssert(acc == q, "range over the base-4 rendering reconstructs the value")
		vAssert((len(u) == 6) == (q >= 1024), "six digits iff q >= 4^5")
	case 2: // ordering of texts is lexicographic, not numeric
		a, b := vNondetInt64("a"), vNondetInt64("b")
		vAssume(0 <= a && a <= 99 && 0 <= b && b <= 99)
		sa, sb := strconv.FormatInt(a, 10), strconv.FormatInt(b, 10)
		if len(sa) == len(sb) {
			vAssert((sa < sb) == (a < b) && (sa >= sb) == (a >= b), "equal lengths: text order is numeric order")
		} else if len(sa) < len(sb) {
			// one digit against two digits: decided by the first characters, then the shorter text is the smaller
			vAssert((sa < sb) == (a <= b/10), "one digit against two digits: lexicographic")
		}
		vAssert((sa == sb) == (a == b), "equal texts iff equal values")
	case 3: // separator-based operations on caller text
		s := vNondetString("s", 7)
		f := strings.Split(s, "/")
		vAssert(strings.Count(s, "/") == len(f)-1, "Count of separators")
		g := strings.SplitN(s, "/", 3)
		vAssert(len(g) <= 3 && (len(f) <= 3) == (len(g) == len(f)) && g[0] == f[0], "SplitN keeps the leading fields")
		h := strings.FieldsFunc(s, func(r rune) bool { return r == '/' })
		ne := 0
		for i := 0; i < len(f); i++ {
			if f[i] != "" {
				ne++
			}
		}
		vAssert(len(h) == ne, "FieldsFunc returns the non-empty fields")
		for i := 0; i < len(h); i++ {
			vAssert(h[i] != "", "no empty field")
		}
	case 4: // fmt.Sprintf with %d / %s / %v verbs renders like FormatInt and concatenation
		a, b := vNondetInt64("a"), vNondetInt64("b")
		t := strconv.FormatInt(b, 10)
		s := fmt.Sprintf("%d/%v/%s|%d%%", a, b, t, int32(7))
		vAssert(s == strconv.FormatInt(a, 10)+"/"+t+"/"+t+"|7%", "Sprintf of integers and strings")
		f := strings.Split(s, "/")
		vAssert(len(f) == 3 && f[0] == strconv.FormatInt(a, 10), "and it splits like any ID text")
		vTraceStr("s", s)
	case 5: // math.Trunc / math.Round / math.Min / math.Max
		x, y := vNondetFloat64("x"), vNondetFloat64("y")
		vAssume(-1e15 <= x && x <= 1e15 && -1e15 <= y && y <= 1e15)
		t, r := math.Trunc(x), math.Round(x)
		vAssert(math.Abs(t) <= math.Abs(x) && math.Abs(x)-math.Abs(t) < 1 && ((x >= 0 && t >= 0) || (x <= 0 && t <= 0)), "Trunc rounds toward zero")
		vAssert(math.Abs(r-x) <= 0.5 && (math.Abs(r-x) < 0.5 || math.Abs(r) > math.Abs(x)), "Round rounds to nearest, halves away from zero")
		vAssert(t == math.Floor(t) && r == math.Floor(r), "both are integers")
		lo, hi := math.Min(x, y), math.Max(x, y)
		vAssert(lo <= x && lo <= y && hi >= x && hi >= y && (lo == x || lo == y) && (hi == x || hi == y), "Min / Max select a bound")
		vTraceFloat("t", t)
		vTraceFloat("r", r)
		vTraceFloat("lo", lo)
	case 6: // sort.Ints (compare-exchange network) and sort.Strings on literals
		xs := []int{int(vNondetInt64("a")), int(vNondetInt64("b")), int(vNondetInt64("c"))}
		vAssume(-1000 <= xs[0] && xs[0] <= 1000 && -1000 <= xs[1] && xs[1] <= 1000 && -1000 <= xs[2] && xs[2] <= 1000)
		sum, a0, b0, c0 := xs[0]+xs[1]+xs[2], xs[0], xs[1], xs[2]
		sort.Ints(xs)
		vAssert(xs[0] <= xs[1] && xs[1] <= xs[2] && xs[0]+xs[1]+xs[2] == sum, "sorted, same sum")
		vAssert((xs[0] == a0 || xs[0] == b0 || xs[0] == c0) && (xs[2] == a0 || xs[2] == b0 || xs[2] == c0) && xs[0] <= a0 && xs[0] <= b0 && xs[0] <= c0 && xs[2] >= a0 && xs[2] >= b0 && xs[2] >= c0, "minimum first, maximum last")
		ss := []string{"10/2", "9/30", "10/10"}
		sort.Strings(ss)
		vAssert(ss[0] == "10/10" && ss[1] == "10/2" && ss[2] == "9/30", "literal strings sort lexicographically")
	}
	vReach("end")
}
