package transform

import "github.com/trajectoryjp/spatial_id_go/v4/common/object"

// C11 — quadkeys are the bit-interleaving of x and y, and the round trip is exact.

func vInterleave(x, y, z int64) int64 {
	var q int64
	for i := int64(0); i < z; i++ {
		q |= ((x >> uint(i)) & 1) << uint(2*i)
		q |= ((y >> uint(i)) & 1) << uint(2*i+1)
	}
	return q
}

// VerifC11Encode: case z in 1..31; x, y symbolic (all bits).
func VerifC11Encode() {
	z := vCase("z")
	x := vNondetInt64("x")
	y := vNondetInt64("y")
	vAssume(0 <= x && x < int64(1)<<uint(z) && 0 <= y && y < int64(1)<<uint(z))
	q := convertHorizontalIDToQuadkey(vID3(z, x, y))
	vAssert(q == vInterleave(x, y, z), "quadkey digit i is 2*bit_i(y) + bit_i(x)")
	vAssert(0 <= q && q < int64(1)<<uint(2*z), "0 <= quadkey < 4^zoom")
	vReach("end")
}

// VerifC11EncodeHigh: zooms 17..31, where the fully symbolic query is out of reach: the `sym` most
// significant bits of x and of y are symbolic, the lower bits are fixed to an alternating pattern.
func VerifC11EncodeHigh() {
	z := vCase("z")
	sym := vCase("sym")
	xt := vNondetInt64("xt")
	yt := vNondetInt64("yt")
	vAssume(0 <= xt && xt < int64(1)<<uint(sym) && 0 <= yt && yt < int64(1)<<uint(sym))
	low := uint(z - sym)
	x := xt<<low | (int64(0x5555555555555555) & (int64(1)<<low - 1))
	y := yt<<low | (int64(0x3333333333333333) & (int64(1)<<low - 1))
	q := convertHorizontalIDToQuadkey(vID3(z, x, y))
	vAssert(q == vInterleave(x, y, z), "quadkey digit i is 2*bit_i(y) + bit_i(x) (most significant bits symbolic)")
	vAssert(0 <= q && q < int64(1)<<uint(2*z), "0 <= quadkey < 4^zoom")
	vReach("end")
}

// VerifC11Decode: case z; quadkey symbolic in [0, 4^z) (leading zero digits included).
func VerifC11Decode() {
	z := vCase("z")
	q := vNondetInt64("q")
	vAssume(0 <= q && q < int64(1)<<uint(2*z))
	x, y := convertQuadkeyToHorizontalID(q, z)
	vAssert(0 <= x && x < int64(1)<<uint(z) && 0 <= y && y < int64(1)<<uint(z), "decoded indices are in range")
	vAssert(vInterleave(x, y, z) == q, "decode is the inverse of the bit interleaving (also with leading 0 digits)")
	vReach("end")
}

// VerifC11Bijective: the reference interleaving is one-to-one (so encode/decode round trips follow).
func VerifC11Bijective() {
	z := vCase("z")
	var x, y [2]int64
	for i := int64(0); i < 2; i++ {
		x[i] = vNondetInt64(vN("x", i))
		y[i] = vNondetInt64(vN("y", i))
		vAssume(0 <= x[i] && x[i] < int64(1)<<uint(z) && 0 <= y[i] && y[i] < int64(1)<<uint(z))
	}
	if vInterleave(x[0], y[0], z) == vInterleave(x[1], y[1], z) {
		vAssert(x[0] == x[1] && y[0] == y[1], "equal quadkeys imply equal tiles")
	}
	vReach("end")
}

// VerifC11RoundTrip: extended ID -> (quadkey, vertical index) groups -> extended IDs at the same
// zooms is the identity; groups echo the request parameters.  Cases: z (horizontal), v (vertical).
func VerifC11RoundTrip() {
	z := vCase("z")
	v := vCase("v")
	x := vNondetInt64("x")
	y := vNondetInt64("y")
	f := vNondetInt64("f")
	vAssume(0 <= x && x < int64(1)<<uint(z) && 0 <= y && y < int64(1)<<uint(z))
	vAssume(-(int64(1)<<uint(v)) <= f && f < int64(1)<<uint(v))
	id := vID5(z, x, y, v, f)
	vFrameBegin("ConvertExtendedSpatialIDsToQuadkeysAndVerticalIDs")
	groups, err := ConvertExtendedSpatialIDsToQuadkeysAndVerticalIDs([]string{id}, z, v, 0, 0)
	vFrameEnd()
	vAssert(err == nil, "valid ID and zooms are accepted")
	vAssert(len(groups) == 1, "one group for one ID")
	g := groups[0]
	vAssert(g.QuadkeyZoom() == z && g.VerticalZoom() == v && g.MaxHeight() == 0 && g.MinHeight() == 0, "the group echoes the request parameters")
	inner := g.InnerIDList()
	vAssert(len(inner) == 1 && inner[0][0] == vInterleave(x, y, z) && inner[0][1] == f, "one (quadkey, vertical index) pair: the interleaving and f")
	back, err2 := ConvertQuadkeysAndVerticalIDsToExtendedSpatialIDs([]*object.QuadkeyAndVerticalID{object.NewQuadkeyAndVerticalID(z, inner[0][0], v, inner[0][1], 0, 0)}, z, v)
	vAssert(err2 == nil, "the pair is accepted back")
	vAssert(len(back) == 1 && back[0] == id, "converting back at the same zooms returns exactly the original ID")
	vReach("end")
}

// VerifC11Zoomed: different output zooms equal the zoom change of C03 on each axis; pairs are
// never reported twice across groups.  Cases z, v, oz, ov, n (1..2 IDs).
func VerifC11Zoomed() {
	z := vCase("z")
	v := vCase("v")
	oz := vCase("oz")
	ov := vCase("ov")
	n := vCase("n")
	mix := vCase("mix") // 1: the second ID is one level coarser horizontally (a possible parent listed after its child)
	var xs, ys, fs, zs [2]int64
	ids := make([]string, 0, 2)
	for i := int64(0); i < n; i++ {
		zs[i] = z - i*mix
		xs[i] = vNondetInt64(vN("x", i))
		ys[i] = vNondetInt64(vN("y", i))
		fs[i] = vNondetInt64(vN("f", i))
		vAssume(0 <= xs[i] && xs[i] < int64(1)<<uint(zs[i]) && 0 <= ys[i] && ys[i] < int64(1)<<uint(zs[i]))
		vAssume(-(int64(1)<<uint(v)) <= fs[i] && fs[i] < int64(1)<<uint(v))
		ids = append(ids, vID5(zs[i], xs[i], ys[i], v, fs[i]))
	}
	groups, err := ConvertExtendedSpatialIDsToQuadkeysAndVerticalIDs(ids, oz, ov, 0, 0)
	vAssert(err == nil, "valid IDs and zooms are accepted")
	// symbolic probe cell of the output grid
	px := vNondetInt64("px")
	py := vNondetInt64("py")
	pf := vNondetInt64("pf")
	vAssume(0 <= px && px < int64(1)<<uint(oz) && 0 <= py && py < int64(1)<<uint(oz))
	vAssume(-(int64(1)<<uint(ov)) <= pf && pf < int64(1)<<uint(ov))
	covered := false
	for i := int64(0); i < n; i++ {
		if vInter1(zs[i], xs[i], oz, px) && vInter1(zs[i], ys[i], oz, py) && vInter1(v, fs[i], ov, pf) {
			covered = true
		}
	}
	pq := vInterleave(px, py, oz)
	hits := int64(0)
	echo := true
	for gi := 0; gi < len(groups); gi++ {
		g := groups[gi]
		if g.QuadkeyZoom() != oz || g.VerticalZoom() != ov || g.MaxHeight() != 0 || g.MinHeight() != 0 {
			echo = false
		}
		in := g.InnerIDList()
		for k := 0; k < len(in); k++ {
			if in[k][0] == pq && in[k][1] == pf {
				hits++
			}
		}
	}
	vAssert(echo, "every group echoes the output zooms and the height range")
	if covered {
		vAssert(hits == 1, "a cell of the output grid that intersects an input is reported exactly once across all groups")
	} else {
		vAssert(hits == 0, "a cell that intersects no input is not reported")
	}
	vReach("end")
}
