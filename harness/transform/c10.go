package transform

import "github.com/trajectoryjp/spatial_id_go/v4/common/object"

// C10 (expansion part) — expanding an extended ID with different horizontal and vertical
// zoom yields duplicate-free spatial IDs at the larger zoom whose union is the voxel.

// VerifC10Expand: cases h, v; symbolic indices and a probe cell at max(h,v).
func VerifC10Expand() {
	h := vCase("h")
	v := vCase("v")
	x := vNondetInt64("x")
	y := vNondetInt64("y")
	f := vNondetInt64("f")
	vAssume(0 <= x && x < int64(1)<<uint(h) && 0 <= y && y < int64(1)<<uint(h))
	vAssume(-(int64(1)<<uint(v)) <= f && f < int64(1)<<uint(v))
	o, err := object.NewExtendedSpatialID(vID5(h, x, y, v, f))
	vAssume(err == nil)
	vFrameBegin("ConvertExtendedSpatialIDToSpatialIDs")
	got := ConvertExtendedSpatialIDToSpatialIDs(o)
	vFrameEnd()
	Z := h
	if v > h {
		Z = v
	}
	px := vNondetInt64("px")
	py := vNondetInt64("py")
	pf := vNondetInt64("pf")
	vAssume(0 <= px && px < int64(1)<<uint(Z) && 0 <= py && py < int64(1)<<uint(Z))
	vAssume(-(int64(1)<<uint(Z)) <= pf && pf < int64(1)<<uint(Z))
	covered := px>>uint(Z-h) == x && py>>uint(Z-h) == y && pf>>uint(Z-v) == f
	probe := vID4(Z, pf, px, py)
	found, dup := false, false
	for i := 0; i < len(got); i++ {
		if got[i] == probe {
			found = true
		}
		for j := i + 1; j < len(got); j++ {
			if got[i] == got[j] {
				dup = true
			}
		}
	}
	vAssert(found == covered, "a cell of the finer zoom (z/f/x/y) is returned iff it lies in the voxel")
	vAssert(!dup, "no spatial ID is returned twice")
	if h < v {
		vAssert(int64(len(got)) == int64(1)<<uint(2*(v-h)), "4^d IDs when the vertical zoom is finer")
	} else {
		vAssert(int64(len(got)) == int64(1)<<uint(h-v), "2^d IDs when the horizontal zoom is finer")
	}
	vReach("end")
}

// VerifC10VoxelID: GetVoxelIDfromSpatialID returns fields 1, 2 and 4.
func VerifC10VoxelID() {
	h := vNondetInt64("h")
	x := vNondetInt64("x")
	y := vNondetInt64("y")
	v := vNondetInt64("v")
	f := vNondetInt64("f")
	got := GetVoxelIDfromSpatialID(vID5(h, x, y, v, f))
	vAssert(len(got) == 3 && got[0] == x && got[1] == y && got[2] == f, "voxel ID is (x, y, f)")
	vReach("end")
}
