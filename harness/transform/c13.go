package transform

import "github.com/trajectoryjp/spatial_id_go/v4/common/object"

// C13 — 3D tile keys convert to IDs that cover the tile and keep its footprint.

// VerifC13Tiles: cases n (1..2 tiles), zk (tile vZoom), e (base exponent), ov (output vZoom);
// symbolic: tile hZoom, x, y, z and the base offset.  Vertical run length bounded by maxrun.
func VerifC13Tiles() {
	n := vCase("n")
	zk := vCase("zk")
	e := vCase("e")
	ov := vCase("ov")
	maxrun := vCase("maxrun")
	dz := vCase("dz") // the second tile's vertical zoom is zk + dz (mixed vertical zooms in one request)
	off := vNondetInt64("off")
	vAssume(-(int64(1)<<30) <= off && off <= int64(1)<<30)
	var hz, xs, ys, zs, mn, mx [2]int64
	var okk [2]bool
	tiles := make([]*object.TileXYZ, 0, 2)
	anyErr := false
	for i := int64(0); i < n; i++ {
		hz[i] = vNondetInt64(vN("h", i))
		xs[i] = vNondetInt64(vN("x", i))
		ys[i] = vNondetInt64(vN("y", i))
		zs[i] = vNondetInt64(vN("z", i))
		vAssume(0 <= hz[i] && hz[i] <= 35)
		zki := zk + i*dz
		t, err := object.NewTileXYZ(hz[i], xs[i], ys[i], zki, zs[i])
		vAssume(err == nil)
		tiles = append(tiles, t)
		a, b, er := ConvertAltitudekeyToMinMaxZ(zs[i], zki, ov, e, off)
		mn[i], mx[i], okk[i] = a, b, er == nil
		if er != nil {
			anyErr = true
		} else {
			vAssume(b-a < maxrun)
		}
	}
	vFrameBegin("ConvertTileXYZsToExtendedSpatialIDs")
	got, err := ConvertTileXYZsToExtendedSpatialIDs(tiles, e, off, ov)
	vFrameEnd()
	if anyErr {
		vAssert(err != nil, "a range error on any tile fails the whole call")
		vAssert(len(got) == 0, "with no partial result")
		vReach("end")
		return
	}
	vAssert(err == nil, "tiles whose ranges exist are accepted")
	// symbolic probe ID at the output vertical zoom
	ph := vNondetInt64("ph")
	px := vNondetInt64("px")
	py := vNondetInt64("py")
	pf := vNondetInt64("pf")
	want := false
	for i := int64(0); i < n; i++ {
		if ph == hz[i] && px == xs[i] && py == ys[i] && mn[i] <= pf && pf <= mx[i] {
			want = true
		}
	}
	hits := int64(0)
	zoomOK := true
	for k := 0; k < len(got); k++ {
		g := got[k]
		if g.VZoom() != ov {
			zoomOK = false
		}
		if g.HZoom() == ph && g.X() == px && g.Y() == py && g.Z() == pf {
			hits++
		}
	}
	vAssert(zoomOK, "every result has the requested vertical zoom")
	if want {
		vAssert(hits == 1, "each (hZoom, x, y, f) with f in a tile's covering range is returned exactly once")
	} else {
		vAssert(hits == 0, "nothing outside the tiles' footprints and covering ranges is returned")
	}
	vReach("end")
}

// VerifC13Spatial: the spatial-ID variant is the expansion of the extended results (as a set).
// Cases: h (tile hZoom), zk, e, ov with |h - ov| <= 2; one tile.
func VerifC13Spatial() {
	h := vCase("h")
	zk := vCase("zk")
	e := vCase("e")
	ov := vCase("ov")
	off := vNondetInt64("off")
	x := vNondetInt64("x")
	y := vNondetInt64("y")
	z := vNondetInt64("z")
	vAssume(-(int64(1)<<30) <= off && off <= int64(1)<<30)
	vAssume(0 <= x && x < int64(1)<<uint(h) && 0 <= y && y < int64(1)<<uint(h))
	t, err := object.NewTileXYZ(h, x, y, zk, z)
	vAssume(err == nil)
	a, b, er := ConvertAltitudekeyToMinMaxZ(z, zk, ov, e, off)
	vAssume(er == nil && b-a < 2)
	ext, err1 := ConvertTileXYZsToExtendedSpatialIDs([]*object.TileXYZ{t}, e, off, ov)
	sp, err2 := ConvertTileXYZsToSpatialIDs([]*object.TileXYZ{t}, e, off, ov)
	vAssert(err1 == nil && err2 == nil, "both variants accept the tile")
	var ref []string
	for k := 0; k < len(ext); k++ {
		o := ext[k]
		ref = append(ref, ConvertExtendedSpatialIDToSpatialIDs(&o)...)
	}
	vAssert(len(ref) == len(sp), "same number of spatial IDs as the expansion of the extended results")
	same := true
	for k := 0; k < len(sp); k++ {
		f := false
		for j := 0; j < len(ref); j++ {
			if sp[k] == ref[j] {
				f = true
			}
		}
		if !f {
			same = false
		}
	}
	vAssert(same, "every spatial ID is in the expansion of the extended results")
	vReach("end")
}
