package transform

import "github.com/trajectoryjp/spatial_id_go/v4/common/object"

// C15 (transform, object tiles) — malformed IDs, zooms outside the documented range: error, never a panic.

const vGood5 = "3/1/2/3/-1"
const vGood4 = "3/-1/1/2"

// VerifC15KeysMalformed: case fn (0 ext->quadkey+vertical, 1 spatial->quadkey+vertical, 2 ext->quadkey+altitudekey), pos.
func VerifC15KeysMalformed() {
	s := vNondetString("s", 7)
	fn := vCase("fn")
	pos := vCase("pos")
	if fn == 1 {
		vAssume(!vWF(s, 4))
		vAssume(vIdxMax(s, 8)) // numeric fields of the malformed ID stay within the index range of zoom 3
		vAssume(vZoomMax(s, 0, 3))
	} else {
		vAssume(!vWF(s, 5))
		vAssume(vIdxMax(s, 8)) // numeric fields of the malformed ID stay within the index range of zoom 3
		vAssume(vZoomMax(s, 0, 3) && vZoomMax(s, 3, 3))
	}
	good := vGood5
	if fn == 1 {
		good = vGood4
	}
	var ids []string
	switch pos {
	case 0:
		ids = []string{s}
	case 1:
		ids = []string{good, s}
	default:
		ids = []string{s, good}
	}
	var err error
	switch fn {
	case 0:
		_, err = ConvertExtendedSpatialIDsToQuadkeysAndVerticalIDs(ids, 3, 3, 0, 0)
	case 1:
		_, err = ConvertSpatialIDsToQuadkeysAndVerticalIDs(ids, 3, 3, 0, 0)
	default:
		_, err = ConvertExtendedSpatialIDsToQuadkeysAndAltitudekeys(ids, 3, 3, 25, 0)
	}
	vAssert(err != nil, "a list containing a malformed ID is an error (and no panic)")
	vReach("end")
}

// VerifC15KeysZoom: output zooms outside 1..31 (quadkey) / 0..35 (vertical) are an error.
func VerifC15KeysZoom() {
	hz := vNondetInt64("hz")
	vz := vNondetInt64("vz")
	fn := vCase("fn")
	vAssume(hz < 1 || hz > 31 || vz < 0 || vz > 35)
	var err error
	n := 0
	switch fn {
	case 0:
		r, e := ConvertExtendedSpatialIDsToQuadkeysAndVerticalIDs([]string{vGood5}, hz, vz, 0, 0)
		err, n = e, len(r)
	case 1:
		r, e := ConvertSpatialIDsToQuadkeysAndVerticalIDs([]string{vGood4}, hz, vz, 0, 0)
		err, n = e, len(r)
	default:
		r, e := ConvertExtendedSpatialIDsToQuadkeysAndAltitudekeys([]string{vGood5}, hz, vz, 25, 0)
		err, n = e, len(r)
	}
	vAssert(err != nil, "an output zoom outside 1..31 / 0..35 is an error")
	vAssert(n == 0, "and nothing is returned")
	vReach("end")
}

// VerifC15FromKeysZoom: quadkey -> ID direction; output zooms outside 0..35 or input zooms outside 1..31 / 0..35.
func VerifC15FromKeysZoom() {
	oh := vNondetInt64("oh")
	ov := vNondetInt64("ov")
	qz := vNondetInt64("qz")
	vz := vNondetInt64("vz")
	which := vCase("which")
	if which == 0 {
		vAssume(oh < 0 || oh > 35 || ov < 0 || ov > 35)
		vAssume(1 <= qz && qz <= 31 && 0 <= vz && vz <= 35)
	} else {
		vAssume(0 <= oh && oh <= 35 && 0 <= ov && ov <= 35)
		vAssume(qz < 1 || qz > 31 || vz < 0 || vz > 35)
	}
	q := object.NewQuadkeyAndVerticalID(qz, 0, vz, 0, 0, 0)
	r, err := ConvertQuadkeysAndVerticalIDsToExtendedSpatialIDs([]*object.QuadkeyAndVerticalID{q}, oh, ov)
	vAssert(err != nil, "zooms outside the documented ranges are an error")
	vAssert(len(r) == 0, "and nothing is returned")
	if oh == ov {
		r2, err2 := ConvertQuadkeysAndVerticalIDsToSpatialIDs([]*object.QuadkeyAndVerticalID{q}, oh)
		vAssert(err2 != nil && len(r2) == 0, "same for the spatial-ID variant")
	}
	vReach("end")
}

// VerifC15Tile: tile zooms outside 0..35 are refused by the constructor and the setters;
// an output vertical zoom outside 0..35 is refused by the converters.
func VerifC15Tile() {
	hz := vNondetInt64("hz")
	vz := vNondetInt64("vz")
	x := vNondetInt64("x")
	y := vNondetInt64("y")
	z := vNondetInt64("z")
	t, err := object.NewTileXYZ(hz, x, y, vz, z)
	if hz < 0 || hz > 35 || vz < 0 || vz > 35 {
		vAssert(err != nil, "NewTileXYZ refuses zooms outside 0..35")
		vAssert(t == nil, "and returns no tile")
	} else {
		vAssert(err == nil && t != nil, "NewTileXYZ accepts zooms in 0..35")
		vAssert(t.HZoom() == hz && t.X() == x && t.Y() == y && t.VZoom() == vz && t.Z() == z, "and stores the five fields")
	}
	vReach("end")
}

func VerifC15TileSetters() {
	hz := vNondetInt64("hz")
	t, _ := object.NewTileXYZ(1, 0, 0, 1, 0)
	vAssume(hz < 0 || hz > 35)
	vAssert(t.SetHZoom(hz) != nil, "SetHZoom refuses zooms outside 0..35")
	vAssert(t.SetVZoom(hz) != nil, "SetVZoom refuses zooms outside 0..35")
	vAssert(t.HZoom() == 1 && t.VZoom() == 1, "and leaves the tile unchanged")
	vReach("end")
}

func VerifC15TileConvertZoom() {
	ov := vNondetInt64("ov")
	vAssume(ov < 0 || ov > 35)
	t, _ := object.NewTileXYZ(3, 1, 2, 3, 1)
	r, err := ConvertTileXYZsToExtendedSpatialIDs([]*object.TileXYZ{t}, 25, 0, ov)
	vAssert(err != nil && len(r) == 0, "an output vertical zoom outside 0..35 is an error with no result")
	r2, err2 := ConvertTileXYZsToSpatialIDs([]*object.TileXYZ{t}, 25, 0, ov)
	vAssert(err2 != nil && len(r2) == 0, "same for the spatial-ID variant")
	vReach("end")
}

// VerifC15Clearance: FitClearanceAroundExtendedSpatialID refuses a negative clearance (any ID) and,
// for a non-negative clearance, any malformed ID — before any geodesy is computed.
func VerifC15Clearance() {
	s := vNondetString("s", 7)
	r := vNondetFloat64("r")
	vAssume(r == r)
	which := vCase("which")
	if which == 0 {
		vAssume(r < 0)
	} else {
		vAssume(r >= 0)
		vAssume(!vWF(s, 5))
		vAssume(vZoomMax(s, 0, 3) && vZoomMax(s, 3, 3) && vIdxMax(s, 8))
	}
	hl, vl, err := FitClearanceAroundExtendedSpatialID(s, r)
	vAssert(err != nil, "a negative clearance or a malformed ID is an error")
	vAssert(hl == 0 && vl == 0, "and no layer counts are reported")
	vReach("end")
}

// VerifC15Corridor: the corridor query refuses a negative radius, nil points and invalid zooms.  The segment is the
// degenerate one (both end points the same concrete point), so that the line is a single voxel and no recursion of
// the line voxelisation (C06, not decided) is entered; the radius / zooms are symbolic.  Case which.
func VerifC15Corridor() {
	p, perr := object.NewPoint(139.75, 35.5, 10.0)
	vAssume(perr == nil)
	skip := vCase("skip") == 1
	switch vCase("which") {
	case 0:
		r := vNondetFloat64("r")
		vAssume(r < 0)
		ids, err := GetExtendedSpatialIdsWithinRadiusOfLine(p, p, r, 20, 20, skip)
		vAssert(err != nil && len(ids) == 0, "a negative radius is an error")
	case 1:
		h, v := vNondetInt64("h"), vNondetInt64("v")
		vAssume(h < 0 || h > 35 || v < 0 || v > 35)
		ids, err := GetExtendedSpatialIdsWithinRadiusOfLine(p, p, 1.0, h, v, skip)
		vAssert(err != nil && len(ids) == 0, "zooms outside 0..35 are an error")
	case 2:
		ids, err := GetExtendedSpatialIdsWithinRadiusOfLine(nil, p, 1.0, 20, 20, skip)
		vAssert(err != nil && len(ids) == 0, "a nil start point is an error")
		ids, err = GetExtendedSpatialIdsWithinRadiusOfLine(p, nil, 1.0, 20, 20, skip)
		vAssert(err != nil && len(ids) == 0, "a nil end point is an error")
	}
	vReach("end")
}
