package transform

import (
	"math"
	"strconv"

	"github.com/trajectoryjp/spatial_id_go/v4/common/object"
)

// C17 — binary-subdivision altitude IDs cover the voxel and stay inside the height range.

// VerifC17BitIndex: the kernel.  Case zoom; altitude(s) and height range symbolic doubles (exact IEEE).
func VerifC17BitIndex() {
	zoom := vCase("zoom")
	mx := vNondetFloat64("max")
	mn := vNondetFloat64("min")
	a1 := vNondetFloat64("a1")
	a2 := vNondetFloat64("a2")
	lim := 1000000.0
	vAssume(-lim <= mn && mn < mx && mx <= lim)
	vAssume(mx-mn >= 1e-3) // height ranges narrower than a millimetre are outside the claim (at 10^6 m a few ulp wide: the borders collide)
	vAssume(-lim <= a1 && a1 <= a2 && a2 <= lim)
	i1 := calcBitIndex(a1, zoom, mx, mn)
	i2 := calcBitIndex(a2, zoom, mx, mn)
	top := int64(1)<<uint(zoom) - 1
	vAssert(0 <= i1 && i1 <= top && 0 <= i2 && i2 <= top, "the index is inside 0..2^zoom-1")
	vAssert(i1 <= i2, "the index is monotone in the altitude")
	if a1 < mn {
		vAssert(i1 == 0, "altitudes below the range are clamped to the first cell")
	}
	if a2 >= mx {
		vAssert(i2 == top, "altitudes at or above the range are clamped to the last cell")
	}
	vReach("end")
}

// VerifC17Run: the forward entry converts a voxel into the contiguous run of cells from the cell
// of its bottom altitude to the cell of its top altitude.  Cases zoom, v.
func VerifC17Run() {
	zoom := vCase("zoom")
	v := vCase("v")
	f := vNondetInt64("f")
	mx := vNondetFloat64("max")
	mn := vNondetFloat64("min")
	vAssume(-(int64(1)<<uint(v)) <= f && f < int64(1)<<uint(v))
	vAssume(-1000000.0 <= mn && mn < mx && mx <= 1000000.0)
	vAssume(mx-mn >= 1e-3)
	got := convertVerticallIDToBit(v, f, zoom, mx, mn)
	res := alt25 / float64(int64(1)<<uint(v))
	lo := calcBitIndex(float64(f)*res, zoom, mx, mn)
	hi := calcBitIndex(float64(f+1)*res, zoom, mx, mn)
	vAssert(lo <= hi, "bottom cell <= top cell")
	vAssume(hi-lo < vCase("maxrun"))
	vAssert(int64(len(got)) == hi-lo+1, "one ID per cell of the run")
	p := vNondetInt64("p")
	found := false
	dup := false
	for i := 0; i < len(got); i++ {
		if got[i] == p {
			found = true
		}
		for j := i + 1; j < len(got); j++ {
			if got[i] == got[j] {
				dup = true
			}
		}
	}
	vAssert(found == (lo <= p && p <= hi), "exactly the cells bottom..top are returned")
	vAssert(!dup, "no cell twice")
	vReach("end")
}

// VerifC17Errors: maxHeight < minHeight is an error in both directions.
func VerifC17Errors() {
	mx := vNondetFloat64("max")
	mn := vNondetFloat64("min")
	vAssume(mx < mn)
	r1, e1 := ConvertExtendedSpatialIDsToQuadkeysAndVerticalIDs([]string{"3/1/2/3/-1"}, 3, 3, mx, mn)
	vAssert(e1 != nil && len(r1) == 0, "forward: maxHeight < minHeight is an error")
	q := object.NewQuadkeyAndVerticalID(3, 5, 3, 1, mx, mn)
	r2, e2 := ConvertQuadkeysAndVerticalIDsToExtendedSpatialIDs([]*object.QuadkeyAndVerticalID{q}, 3, 3)
	vAssert(e2 != nil && len(r2) == 0, "backward: maxHeight < minHeight is an error")
	vReach("end")
}

// VerifC17Structure: range and monotonicity of the kernel at EVERY output zoom, from the structure of the halving loop
// alone (float arithmetic uninterpreted, comparisons exact): whatever the border values are, each step compares the
// altitude with a border that does not depend on the altitude given the bits so far.  Any doubles (no NaN).
func VerifC17Structure() {
	zoom := vCase("zoom")
	mx := vNondetFloat64("max")
	mn := vNondetFloat64("min")
	a1 := vNondetFloat64("a1")
	a2 := vNondetFloat64("a2")
	vAssume(a1 <= a2)
	i1 := calcBitIndex(a1, zoom, mx, mn)
	i2 := calcBitIndex(a2, zoom, mx, mn)
	top := int64(1)<<uint(zoom) - 1
	vAssert(0 <= i1 && i1 <= top && 0 <= i2 && i2 <= top, "the index is inside 0..2^zoom-1 at every zoom")
	vAssert(i1 <= i2, "the index is monotone in the altitude at every zoom")
	vReach("end")
}

// vC17Back converts (quadkey 5 at zoom 3, bit index i at zoom z) pairs, each with its own height range, back to
// extended IDs at (3, ov) and returns the vertical indices.
func vC17Back(qs []*object.QuadkeyAndVerticalID, ov int64) []float64 {
	ids, err := ConvertQuadkeysAndVerticalIDsToExtendedSpatialIDs(qs, 3, ov)
	vAssert(err == nil, "a height range with max > min is accepted")
	var fs []float64 // indices as (exact) floats: the oracle arithmetic stays in the real-sorted domain
	for k := 0; k < len(ids); k++ {
		s := vSplit(ids[k])
		vAssert(len(s) == 5 && s[0] == "3" && s[3] == strconv.FormatInt(ov, 10), "results are extended IDs at the requested zooms")
		f, perr := strconv.ParseInt(s[4], 10, 64)
		vAssert(perr == nil, "integer vertical index")
		fs = append(fs, float64(f))
	}
	return fs
}

// VerifC17Reverse: the reverse direction.  Case z (zoom of the bit index), i (the index, concrete so that the cell
// bounds stay linear), ov (output vertical zoom), n.  n = 1: the run returned for cell i of the 2^z-fold subdivision of
// [min, max) is contiguous, duplicate-free and covers the cell's altitude interval (up to the rounding of the two
// bounds, 1e-6 m).  n = 2: two pairs with the SAME index but different height ranges in one request (either order)
// give the union of what each gives alone.
func VerifC17Reverse() {
	z, i, ov := vCase("z"), vCase("i"), vCase("ov")
	cell := math.Pow(2, float64(25-ov))
	mx := vNondetFloat64("max")
	mn := vNondetFloat64("min")
	vAssume(-100000.0 <= mn && mn < mx && mx <= 100000.0)
	vAssume(mx-mn >= 1e-3 && mx-mn <= 2*cell*float64(int64(1)<<uint(z))) // cells at most two output cells tall
	q0 := object.NewQuadkeyAndVerticalID(3, 5, z, i, mx, mn)
	if vCase("n") == 1 {
		fs := vC17Back([]*object.QuadkeyAndVerticalID{q0}, ov)
		vAssert(len(fs) >= 1 && len(fs) <= 4, "between one and four cells")
		lo, hi := fs[0], fs[0]
		dup := false
		for k := 0; k < len(fs); k++ {
			if fs[k] < lo {
				lo = fs[k]
			}
			if fs[k] > hi {
				hi = fs[k]
			}
			for j := 0; j < k; j++ {
				if fs[j] == fs[k] {
					dup = true
				}
			}
		}
		vAssert(!dup && float64(len(fs)) == hi-lo+1, "a contiguous, duplicate-free run")
		w := vRDiv(vRSub(vR(mx), vR(mn)), vRI(int64(1)<<uint(z)))
		bot := vRAdd(vR(mn), vRMul(vRI(i), w))
		top := vRAdd(vR(mn), vRMul(vRI(i+1), w))
		tol := vRDiv(vRI(1), vRI(1000000))
		c := vR(cell)
		vAssert(vRLe(vRMul(vR(lo), c), vRAdd(bot, tol)) && vRLe(vRSub(top, tol), vRMul(vR(hi+1), c)), "the run covers the cell's altitude interval")
		vAssert(vRLt(vRSub(bot, tol), vRMul(vR(lo+1), c)) && vRLe(vRMul(vR(hi), c), vRAdd(top, tol)), "and does not reach beyond the cells that touch it")
	} else {
		// the second pair has the same index and a CONCRETE, far-away height range (so that only one run is symbolic);
		// case ord puts it first or second in the request
		q1 := object.NewQuadkeyAndVerticalID(3, 5, z, i, -299.0, -300.0)
		req := []*object.QuadkeyAndVerticalID{q0, q1}
		if vCase("ord") == 1 {
			req = []*object.QuadkeyAndVerticalID{q1, q0}
		}
		both := vC17Back(req, ov)
		a := vC17Back([]*object.QuadkeyAndVerticalID{q0}, ov)
		b := vC17Back([]*object.QuadkeyAndVerticalID{q1}, ov)
		p := math.Floor(vNondetFloat64("p"))
		inBoth, inA, inB := false, false, false
		for k := 0; k < len(both); k++ {
			if both[k] == p {
				inBoth = true
			}
		}
		for k := 0; k < len(a); k++ {
			if a[k] == p {
				inA = true
			}
		}
		for k := 0; k < len(b); k++ {
			if b[k] == p {
				inB = true
			}
		}
		vAssert(inBoth == (inA || inB), "a request of two pairs gives the union of what each pair gives alone (each with its own height range)")
	}
	vReach("end")
}
