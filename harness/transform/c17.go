package transform

import "github.com/trajectoryjp/spatial_id_go/v4/common/object"

// C17 — binary-subdivision altitude IDs cover the voxel and stay inside the height range.

// VerifC17BitIndex: the kernel.  Case zoom; altitude(s) and height range symbolic doubles (exact IEEE).
func VerifC17BitIndex() {
	zoom := vCase("zoom")
	mx := vNondetFloat64("max")
	mn := vNondetFloat64("min")
	a1 := vNondetFloat64("a1")
	a2 := vNondetFloat64("a2")
	lim := 1000000.0
	vAssume(-lim <= mn && mn < mx && mx <= lim)
	vAssume(mx-mn >= 1e-3) // height ranges narrower than a millimetre are outside the claim (at 10^6 m a few ulp wide: the borders collide)
	vAssume(-lim <= a1 && a1 <= a2 && a2 <= lim)
	i1 := calcBitIndex(a1, zoom, mx, mn)
	i2 := calcBitIndex(a2, zoom, mx, mn)
	top := int64(1)<<uint(zoom) - 1
	vAssert(0 <= i1 && i1 <= top && 0 <= i2 && i2 <= top, "the index is inside 0..2^zoom-1")
	vAssert(i1 <= i2, "the index is monotone in the altitude")
	if a1 < mn {
		vAssert(i1 == 0, "altitudes below the range are clamped to the first cell")
	}
	if a2 >= mx {
		vAssert(i2 == top, "altitudes at or above the range are clamped to the last cell")
	}
	vReach("end")
}

// VerifC17Run: the forward entry converts a voxel into the contiguous run of cells from the cell
// of its bottom altitude to the cell of its top altitude.  Cases zoom, v.
func VerifC17Run() {
	zoom := vCase("zoom")
	v := vCase("v")
	f := vNondetInt64("f")
	mx := vNondetFloat64("max")
	mn := vNondetFloat64("min")
	vAssume(-(int64(1)<<uint(v)) <= f && f < int64(1)<<uint(v))
	vAssume(-1000000.0 <= mn && mn < mx && mx <= 1000000.0)
	vAssume(mx-mn >= 1e-3)
	got := convertVerticallIDToBit(v, f, zoom, mx, mn)
	res := alt25 / float64(int64(1)<<uint(v))
	lo := calcBitIndex(float64(f)*res, zoom, mx, mn)
	hi := calcBitIndex(float64(f+1)*res, zoom, mx, mn)
	vAssert(lo <= hi, "bottom cell <= top cell")
	vAssume(hi-lo < vCase("maxrun"))
	vAssert(int64(len(got)) == hi-lo+1, "one ID per cell of the run")
	p := vNondetInt64("p")
	found := false
	dup := false
	for i := 0; i < len(got); i++ {
		if got[i] == p {
			found = true
		}
		for j := i + 1; j < len(got); j++ {
			if got[i] == got[j] {
				dup = true
			}
		}
	}
	vAssert(found == (lo <= p && p <= hi), "exactly the cells bottom..top are returned")
	vAssert(!dup, "no cell twice")
	vReach("end")
}

// VerifC17Errors: maxHeight < minHeight is an error in both directions.
func VerifC17Errors() {
	mx := vNondetFloat64("max")
	mn := vNondetFloat64("min")
	vAssume(mx < mn)
	r1, e1 := ConvertExtendedSpatialIDsToQuadkeysAndVerticalIDs([]string{"3/1/2/3/-1"}, 3, 3, mx, mn)
	vAssert(e1 != nil && len(r1) == 0, "forward: maxHeight < minHeight is an error")
	q := object.NewQuadkeyAndVerticalID(3, 5, 3, 1, mx, mn)
	r2, e2 := ConvertQuadkeysAndVerticalIDsToExtendedSpatialIDs([]*object.QuadkeyAndVerticalID{q}, 3, 3)
	vAssert(e2 != nil && len(r2) == 0, "backward: maxHeight < minHeight is an error")
	vReach("end")
}

// VerifC17Structure: range and monotonicity of the kernel at EVERY output zoom, from the structure of the halving loop
// alone (float arithmetic uninterpreted, comparisons exact): whatever the border values are, each step compares the
// altitude with a border that does not depend on the altitude given the bits so far.  Any doubles (no NaN).
func VerifC17Structure() {
	zoom := vCase("zoom")
	mx := vNondetFloat64("max")
	mn := vNondetFloat64("min")
	a1 := vNondetFloat64("a1")
	a2 := vNondetFloat64("a2")
	vAssume(a1 <= a2)
	i1 := calcBitIndex(a1, zoom, mx, mn)
	i2 := calcBitIndex(a2, zoom, mx, mn)
	top := int64(1)<<uint(zoom) - 1
	vAssert(0 <= i1 && i1 <= top && 0 <= i2 && i2 <= top, "the index is inside 0..2^zoom-1 at every zoom")
	vAssert(i1 <= i2, "the index is monotone in the altitude at every zoom")
	vReach("end")
}
