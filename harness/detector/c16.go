package detector

import (
	"github.com/trajectoryjp/spatial_id_go/v4/common/object"
	"github.com/trajectoryjp/spatial_id_go/v4/integrate"
	"github.com/trajectoryjp/spatial_id_go/v4/operated"
	"github.com/trajectoryjp/spatial_id_go/v4/transform"
)

// C16 — results depend only on the input set: deterministic under every map iteration order,
// order-blind, duplicate-blind, duplicate-free, inputs left unmodified.
//
// Every operation is called (a) with maps iterated in insertion order, (b) with every range over
// a map taking an arbitrary order (the executor forks over all orders, bound 4 keys per map),
// (c) on the swapped input list, (d) on the list with its first element repeated.

func vSameSet(a, b []string) bool {
	ok := true
	for i := 0; i < len(a); i++ {
		f := false
		for j := 0; j < len(b); j++ {
			if a[i] == b[j] {
				f = true
			}
		}
		if !f {
			ok = false
		}
	}
	for i := 0; i < len(b); i++ {
		f := false
		for j := 0; j < len(a); j++ {
			if b[i] == a[j] {
				f = true
			}
		}
		if !f {
			ok = false
		}
	}
	return ok
}

func vNoDup(a []string) bool {
	ok := true
	for i := 0; i < len(a); i++ {
		for j := i + 1; j < len(a); j++ {
			if a[i] == a[j] {
				ok = false
			}
		}
	}
	return ok
}

// vTwoIDs: two symbolic IDs; with case mix = 1 the second one is one level finer on both axes
// (mixed precision inside one list), with mix = 2 on the horizontal axis only (same vertical
// zoom), with mix = 3 on the vertical axis only (same horizontal zoom).
func vTwoIDs(h, v int64) (string, string) {
	var id [2]string
	mix := vCase("mix")
	for i := int64(0); i < 2; i++ {
		hh, vv := h, v
		if mix == 1 || mix == 2 {
			hh = h + i
		}
		if mix == 1 || mix == 3 {
			vv = v + i
		}
		x, y, f := vNondetInt64(vN("x", i)), vNondetInt64(vN("y", i)), vNondetInt64(vN("f", i))
		vAssume(0 <= x && x < int64(1)<<uint(hh) && 0 <= y && y < int64(1)<<uint(hh))
		vAssume(-(int64(1)<<uint(vv)) <= f && f < int64(1)<<uint(vv))
		id[i] = vID5(hh, x, y, vv, f)
	}
	return id[0], id[1]
}

// vSpare returns the list in a slice with spare capacity, so that an in-place append by the
// callee would write into the caller's backing array (caught by the frame check).
func vSpare(ids ...string) []string {
	l := make([]string, 0, len(ids)+3)
	return append(l, ids...)
}

// VerifC16Op: case op selects the operation; h, v the zoom of the two symbolic input IDs.
func VerifC16Op() {
	op := vCase("op")
	h, v := vCase("h"), vCase("v")
	a, b := vTwoIDs(h, v)
	call := func(ids []string) []string {
		var r []string
		var err error
		switch op {
		case 0:
			r, err = integrate.ChangeExtendedSpatialIdsZoom(ids, h-1, v-1)
		case 1:
			r, err = integrate.ChangeExtendedSpatialIdsZoom(ids, h, v+1)
		case 2:
			r, err = integrate.MergeExtendedSpatialIds(ids, h-1, v-1)
		case 7:
			r, err = integrate.MergeExtendedSpatialIds(ids, h, v)
		case 9:
			r, err = integrate.ChangeExtendedSpatialIdsZoom(ids, h+1, v+1)
		case 3:
			r, err = operated.GetNspatialIdsAroundVoxcels(ids, 0, 1)
		case 4:
			var qs []*object.QuadkeyAndVerticalID
			for i := 0; i < len(ids); i++ {
				o, _ := object.NewExtendedSpatialID(ids[i])
				qs = append(qs, object.NewQuadkeyAndVerticalID(h, o.X(), v, o.Z(), 0, 0))
			}
			r, err = transform.ConvertQuadkeysAndVerticalIDsToExtendedSpatialIDs(qs, h-1, v)
		case 10:
			// quadkeys of mixed zooms in one list (the key numbers may coincide across zooms)
			var qs []*object.QuadkeyAndVerticalID
			for i := 0; i < len(ids); i++ {
				o, _ := object.NewExtendedSpatialID(ids[i])
				qs = append(qs, object.NewQuadkeyAndVerticalID(o.HZoom(), o.X(), o.VZoom(), o.Z(), 0, 0))
			}
			r, err = transform.ConvertQuadkeysAndVerticalIDsToExtendedSpatialIDs(qs, h, v)
		}
		vAssert(err == nil, "valid input accepted")
		return r
	}
	in := vSpare(a, b)
	vFrameBegin("set-valued operation")
	base := call(in)
	vMapOrders(vCase("orders") == 1) // orders = 0 when a map in the operation holds more than 4 keys (the order bound)
	other := call(in)
	vMapOrders(false)
	vFrameEnd()
	vAssert(len(in) == 2 && in[0] == a && in[1] == b, "the caller's list is unchanged")
	vAssert(vSameSet(base, other), "the same call returns the same set for every map iteration order")
	vAssert(vNoDup(base) && vNoDup(other), "results are duplicate-free")
	swapped := call(vSpare(b, a))
	vAssert(vSameSet(base, swapped), "permuting the input list does not change the set")
	dup := call(vSpare(a, b, a))
	vAssert(vSameSet(base, dup), "repeating an entry does not change the set")
	vReach("end")
}

// VerifC16Overlap: the boolean operations under permutation / duplication.
func VerifC16Overlap() {
	h, v := vCase("h"), vCase("v")
	a, b := vTwoIDs(h, v)
	cx, cy, cf := vNondetInt64("cx"), vNondetInt64("cy"), vNondetInt64("cf")
	vAssume(0 <= cx && cx < int64(1)<<uint(h-1) && 0 <= cy && cy < int64(1)<<uint(h-1))
	vAssume(-(int64(1)<<uint(v-1)) <= cf && cf < int64(1)<<uint(v-1))
	c := vID5(h-1, cx, cy, v-1, cf)
	r1, e1 := CheckExtendedSpatialIdsArrayOverlap(vSpare(a, b), vSpare(c))
	r2, e2 := CheckExtendedSpatialIdsArrayOverlap(vSpare(b, a, b), vSpare(c, c))
	vAssert(e1 == nil && e2 == nil && r1 == r2, "overlap answer is blind to order and repetition")
	vReach("end")
}

// VerifC16Tiles: tile conversion (map keyed by the ID struct) under all iteration orders.
func VerifC16Tiles() {
	var ts []*object.TileXYZ
	for i := int64(0); i < 2; i++ {
		// case mix = 1: the second tile is one level finer horizontally and one level coarser vertically
		t, err := object.NewTileXYZ(5+i*vCase("mix"), vNondetInt64(vN("x", i)), vNondetInt64(vN("y", i)), 25-i*vCase("mix"), vNondetInt64(vN("z", i)))
		vAssume(err == nil)
		ts = append(ts, t)
	}
	str := func(l []object.ExtendedSpatialID) []string {
		var s []string
		for i := 0; i < len(l); i++ {
			s = append(s, l[i].ID())
		}
		return s
	}
	vFrameBegin("ConvertTileXYZsToExtendedSpatialIDs")
	r1, e1 := transform.ConvertTileXYZsToExtendedSpatialIDs(ts, 25, 0, 25)
	vMapOrders(true)
	r2, e2 := transform.ConvertTileXYZsToExtendedSpatialIDs(ts, 25, 0, 25)
	vMapOrders(false)
	vFrameEnd()
	if e1 != nil || e2 != nil {
		vAssert(e1 != nil && e2 != nil, "the error outcome is deterministic")
		vReach("end")
		return
	}
	vAssert(vSameSet(str(r1), str(r2)), "same set for every map iteration order")
	vAssert(vNoDup(str(r1)), "no duplicates")
	r3, e3 := transform.ConvertTileXYZsToExtendedSpatialIDs([]*object.TileXYZ{ts[1], ts[0], ts[1]}, 25, 0, 25)
	vAssert(e3 == nil && vSameSet(str(r1), str(r3)), "blind to order and repetition of the tiles")
	vReach("end")
}
