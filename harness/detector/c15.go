package detector

// C15 (detector) — malformed IDs make the overlap checks return (false, error).

const vGood5 = "3/1/2/3/-1"
const vGood4 = "3/-1/1/2"

// VerifC15OverlapExt: case side (which argument is malformed; 2 = the same malformed text as both), arr (array form).
func VerifC15OverlapExt() {
	s := vNondetString("s", 7)
	side := vCase("side")
	arr := vCase("arr")
	vAssume(!vWF(s, 5))
	vAssume(vIdxSane(s))
	vAssume(vZoomMax(s, 0, 3) && vZoomMax(s, 3, 3))
	a, b := s, vGood5
	if side == 1 {
		a, b = vGood5, s
	}
	if side == 2 { // the same malformed text on both sides
		a, b = s, s
	}
	var got bool
	var err error
	switch arr {
	case 0:
		got, err = CheckExtendedSpatialIdsOverlap(a, b)
	case 1:
		got, err = CheckExtendedSpatialIdsArrayOverlap([]string{a}, []string{b})
	default: // the malformed ID is the second element of its list, behind a well-formed ID that overlaps nothing
		far := "3/7/7/3/5"
		if side == 0 {
			got, err = CheckExtendedSpatialIdsArrayOverlap([]string{far, a}, []string{b})
		} else {
			got, err = CheckExtendedSpatialIdsArrayOverlap([]string{a}, []string{far, b})
		}
	}
	vAssert(err != nil, "a malformed extended ID is an error")
	vAssert(!got, "and the answer is false")
	vReach("end")
}

func VerifC15OverlapSpatial() {
	s := vNondetString("s", 7)
	side := vCase("side")
	arr := vCase("arr")
	vAssume(!vWF(s, 4))
	vAssume(vIdxSane(s))
	vAssume(vZoomMax(s, 0, 2)) // numeric zoom fields kept <= 2: the radix tree is walked once per zoom level
	a, b := s, vGood4
	if side == 1 {
		a, b = vGood4, s
	}
	if side == 2 {
		a, b = s, s
	}
	var got bool
	var err error
	switch arr {
	case 0:
		got, err = CheckSpatialIdsOverlap(a, b)
	case 1:
		got, err = CheckSpatialIdsArrayOverlap([]string{a}, []string{b})
	default:
		far := "3/3/7/7"
		if side == 0 {
			got, err = CheckSpatialIdsArrayOverlap([]string{far, a}, []string{b})
		} else {
			got, err = CheckSpatialIdsArrayOverlap([]string{a}, []string{far, b})
		}
	}
	vAssert(err != nil, "a malformed spatial ID is an error")
	vAssert(!got, "and the answer is false")
	vReach("end")
}
