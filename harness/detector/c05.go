package detector

// C05 — overlap detection answers exactly whether two voxel sets intersect.

// VerifC05Ext: extended-ID pairwise check.  Cases h1, v1, h2, v2; indices symbolic.
func VerifC05Ext() {
	h1, v1, h2, v2 := vCase("h1"), vCase("v1"), vCase("h2"), vCase("v2")
	x1, y1, f1 := vNondetInt64("x1"), vNondetInt64("y1"), vNondetInt64("f1")
	x2, y2, f2 := vNondetInt64("x2"), vNondetInt64("y2"), vNondetInt64("f2")
	vAssume(0 <= x1 && x1 < int64(1)<<uint(h1) && 0 <= y1 && y1 < int64(1)<<uint(h1))
	vAssume(0 <= x2 && x2 < int64(1)<<uint(h2) && 0 <= y2 && y2 < int64(1)<<uint(h2))
	vAssume(-(int64(1)<<uint(v1)) <= f1 && f1 < int64(1)<<uint(v1))
	vAssume(-(int64(1)<<uint(v2)) <= f2 && f2 < int64(1)<<uint(v2))
	a, b := vID5(h1, x1, y1, v1, f1), vID5(h2, x2, y2, v2, f2)
	want := vInter1(h1, x1, h2, x2) && vInter1(h1, y1, h2, y2) && vInter1(v1, f1, v2, f2)
	got, err := CheckExtendedSpatialIdsOverlap(a, b)
	vAssert(err == nil, "valid IDs are accepted")
	vAssert(got == want, "overlap iff one voxel is an ancestor-or-equal of the other on both axes")
	rev, err2 := CheckExtendedSpatialIdsOverlap(b, a)
	vAssert(err2 == nil && rev == got, "the answer is symmetric in its arguments")
	self, err3 := CheckExtendedSpatialIdsOverlap(a, a)
	vAssert(err3 == nil && self, "an ID overlaps itself")
	vReach("end")
}

// VerifC05ExtArray: array form = disjunction of the pairwise form; empty lists give false.
// Cases n1, n2 (0..2); element i is at (h + bit_i(hm), v + bit_i(vm)): mixed zooms per axis inside and across the lists.
func VerifC05ExtArray() {
	n1, n2 := vCase("n1"), vCase("n2")
	h, v := vCase("h"), vCase("v")
	hm, vm := vCase("hm"), vCase("vm") // bit i set: element i is one level finer horizontally / vertically
	var l1, l2 []string
	anyPair := false
	var xs, ys, fs, hs, vs [4]int64
	for i := int64(0); i < n1+n2; i++ {
		hs[i], vs[i] = h+((hm>>uint(i))&1), v+((vm>>uint(i))&1)
		xs[i], ys[i], fs[i] = vNondetInt64(vN("x", i)), vNondetInt64(vN("y", i)), vNondetInt64(vN("f", i))
		vAssume(0 <= xs[i] && xs[i] < int64(1)<<uint(hs[i]) && 0 <= ys[i] && ys[i] < int64(1)<<uint(hs[i]))
		vAssume(-(int64(1)<<uint(vs[i])) <= fs[i] && fs[i] < int64(1)<<uint(vs[i]))
		if i < n1 {
			l1 = append(l1, vID5(hs[i], xs[i], ys[i], vs[i], fs[i]))
		} else {
			l2 = append(l2, vID5(hs[i], xs[i], ys[i], vs[i], fs[i]))
		}
	}
	for i := int64(0); i < n1; i++ {
		for j := n1; j < n1+n2; j++ {
			if vInter1(hs[i], xs[i], hs[j], xs[j]) && vInter1(hs[i], ys[i], hs[j], ys[j]) && vInter1(vs[i], fs[i], vs[j], fs[j]) {
				anyPair = true
			}
		}
	}
	vFrameBegin("CheckExtendedSpatialIdsArrayOverlap")
	got, err := CheckExtendedSpatialIdsArrayOverlap(l1, l2)
	vFrameEnd()
	vAssert(err == nil, "valid lists are accepted")
	vAssert(got == anyPair, "the array form equals the disjunction of the pairwise form (false when a list is empty)")
	vReach("end")
}

// VerifC05ExtArrayZooms: the same claim with each element's zooms given by the case (h0..h3, v0..v3),
// so that one list can hold zooms whose decimal texts extend one another (5 and 15): pairs that differ as
// pairs although the concatenation of their texts coincides.
func VerifC05ExtArrayZooms() {
	n1, n2 := vCase("n1"), vCase("n2")
	var l1, l2 []string
	anyPair := false
	var xs, ys, fs, hs, vs [4]int64
	for i := int64(0); i < n1+n2; i++ {
		hs[i], vs[i] = vCase(vN("h", i)), vCase(vN("v", i))
		xs[i], ys[i], fs[i] = vNondetInt64(vN("x", i)), vNondetInt64(vN("y", i)), vNondetInt64(vN("f", i))
		vAssume(0 <= xs[i] && xs[i] < int64(1)<<uint(hs[i]) && 0 <= ys[i] && ys[i] < int64(1)<<uint(hs[i]))
		vAssume(-(int64(1)<<uint(vs[i])) <= fs[i] && fs[i] < int64(1)<<uint(vs[i]))
		if i < n1 {
			l1 = append(l1, vID5(hs[i], xs[i], ys[i], vs[i], fs[i]))
		} else {
			l2 = append(l2, vID5(hs[i], xs[i], ys[i], vs[i], fs[i]))
		}
	}
	for i := int64(0); i < n1; i++ {
		for j := n1; j < n1+n2; j++ {
			if vInter1(hs[i], xs[i], hs[j], xs[j]) && vInter1(hs[i], ys[i], hs[j], ys[j]) && vInter1(vs[i], fs[i], vs[j], fs[j]) {
				anyPair = true
			}
		}
	}
	vFrameBegin("CheckExtendedSpatialIdsArrayOverlap")
	got, err := CheckExtendedSpatialIdsArrayOverlap(l1, l2)
	vFrameEnd()
	vAssert(err == nil, "valid lists are accepted")
	vAssert(got == anyPair, "the array form equals the disjunction of the pairwise form (false when a list is empty)")
	vReach("end")
}

// VerifC05Tree: spatial-ID (radix tree) pairwise check inside the documented +-2^24 m.
// Cases z1, z2; symbolic indices.
func VerifC05Tree() {
	z1, z2 := vCase("z1"), vCase("z2")
	x1, y1, f1 := vNondetInt64("x1"), vNondetInt64("y1"), vNondetInt64("f1")
	x2, y2, f2 := vNondetInt64("x2"), vNondetInt64("y2"), vNondetInt64("f2")
	vAssume(0 <= x1 && x1 < int64(1)<<uint(z1) && 0 <= y1 && y1 < int64(1)<<uint(z1))
	vAssume(0 <= x2 && x2 < int64(1)<<uint(z2) && 0 <= y2 && y2 < int64(1)<<uint(z2))
	vAssume(-(int64(1)<<uint(z1-1)) <= f1 && f1 < int64(1)<<uint(z1-1))
	vAssume(-(int64(1)<<uint(z2-1)) <= f2 && f2 < int64(1)<<uint(z2-1))
	a, b := vID4(z1, f1, x1, y1), vID4(z2, f2, x2, y2)
	want := vInter1(z1, x1, z2, x2) && vInter1(z1, y1, z2, y2) && vInter1(z1, f1, z2, f2)
	got, err := CheckSpatialIdsOverlap(a, b)
	vAssert(err == nil, "valid spatial IDs inside +-2^24 m are accepted (including the top index of the range)")
	vAssert(got == want, "overlap iff one voxel is an ancestor-or-equal of the other on every axis")
	if vCase("sym") == 1 {
		rev, err2 := CheckSpatialIdsOverlap(b, a)
		vAssert(err2 == nil && rev == got, "the answer is symmetric in its arguments")
	}
	vReach("end")
}

// VerifC05TreeArray: list form with empty / one / two element lists.  Cases n1, n2, z.
func VerifC05TreeArray() {
	n1, n2 := vCase("n1"), vCase("n2")
	z := vCase("z")
	ord := vCase("ord") // 0: coarse element first, 1: fine element first within each list
	var l1, l2 []string
	var xs, ys, fs, zs [4]int64
	for i := int64(0); i < n1+n2; i++ {
		zs[i] = z + ((i + ord) % 2)
		xs[i], ys[i], fs[i] = vNondetInt64(vN("x", i)), vNondetInt64(vN("y", i)), vNondetInt64(vN("f", i))
		vAssume(0 <= xs[i] && xs[i] < int64(1)<<uint(zs[i]) && 0 <= ys[i] && ys[i] < int64(1)<<uint(zs[i]))
		vAssume(-(int64(1)<<uint(zs[i]-1)) <= fs[i] && fs[i] < int64(1)<<uint(zs[i]-1))
		if i < n1 {
			l1 = append(l1, vID4(zs[i], fs[i], xs[i], ys[i]))
		} else {
			l2 = append(l2, vID4(zs[i], fs[i], xs[i], ys[i]))
		}
	}
	anyPair := false
	for i := int64(0); i < n1; i++ {
		for j := n1; j < n1+n2; j++ {
			if vInter1(zs[i], xs[i], zs[j], xs[j]) && vInter1(zs[i], ys[i], zs[j], ys[j]) && vInter1(zs[i], fs[i], zs[j], fs[j]) {
				anyPair = true
			}
		}
	}
	got, err := CheckSpatialIdsArrayOverlap(l1, l2)
	vAssert(err == nil, "valid lists are accepted")
	vAssert(got == anyPair, "the array form equals the disjunction of the pairwise form (false, without panic, when a list is empty)")
	vReach("end")
}
