package detector

import "github.com/trajectoryjp/spatial_id_go/v4/integrate"

// C09 — point lookup, zoom change, merge and overlap agree with each other (index part; the
// point part is in package shape's harness for the float kernels).

// VerifC09InOut: zoom an ID in (dh, dv levels) and back out: exactly the ID; the descendants
// merge back into the ID; every descendant overlaps the ID.  Cases h, v, dh, dv.
func VerifC09InOut() {
	h, v := vCase("h"), vCase("v")
	dh, dv := vCase("dh"), vCase("dv")
	x, y, f := vNondetInt64("x"), vNondetInt64("y"), vNondetInt64("f")
	vAssume(0 <= x && x < int64(1)<<uint(h) && 0 <= y && y < int64(1)<<uint(h))
	vAssume(-(int64(1)<<uint(v)) <= f && f < int64(1)<<uint(v))
	id := vID5(h, x, y, v, f)
	fine, err := integrate.ChangeExtendedSpatialIdsZoom([]string{id}, h+dh, v+dv)
	vAssert(err == nil, "zoom-in accepted")
	vAssert(int64(len(fine)) == int64(1)<<uint(2*dh+dv), "4^dh * 2^dv descendants")
	back, err2 := integrate.ChangeExtendedSpatialIdsZoom(fine, h, v)
	vAssert(err2 == nil, "zoom-out accepted")
	vAssert(len(back) == 1 && back[0] == id, "zooming in and back out returns exactly the ID")
	merged, err3 := integrate.MergeExtendedSpatialIds(fine, h, v)
	vAssert(err3 == nil, "merge accepted")
	vAssert(len(merged) == 1 && merged[0] == id, "merging the complete set of descendants returns exactly the ID")
	all := true
	for i := 0; i < len(fine); i++ {
		o, e := CheckExtendedSpatialIdsOverlap(id, fine[i])
		if e != nil || !o {
			all = false
		}
	}
	vAssert(all, "every descendant overlaps the ID")
	anyArr, err4 := CheckExtendedSpatialIdsArrayOverlap([]string{id}, fine)
	vAssert(err4 == nil && anyArr, "array overlap of the ID with its descendants")
	vReach("end")
}

// VerifC09Ancestors: the ancestors of an ID at two coarser zoom pairs are nested and overlap.
// Cases h, v, a1, a2 (zoom-out distances, a1 <= a2 applied to both axes where possible).
func VerifC09Ancestors() {
	h, v := vCase("h"), vCase("v")
	a1, a2 := vCase("a1"), vCase("a2")
	x, y, f := vNondetInt64("x"), vNondetInt64("y"), vNondetInt64("f")
	vAssume(0 <= x && x < int64(1)<<uint(h) && 0 <= y && y < int64(1)<<uint(h))
	vAssume(-(int64(1)<<uint(v)) <= f && f < int64(1)<<uint(v))
	id := vID5(h, x, y, v, f)
	h1, v1, h2, v2 := h-a1, v-a1, h-a2, v-a2
	if h1 < 0 {
		h1 = 0
	}
	if v1 < 0 {
		v1 = 0
	}
	if h2 < 0 {
		h2 = 0
	}
	if v2 < 0 {
		v2 = 0
	}
	p1, e1 := integrate.ChangeExtendedSpatialIdsZoom([]string{id}, h1, v1)
	p2, e2 := integrate.ChangeExtendedSpatialIdsZoom([]string{id}, h2, v2)
	vAssert(e1 == nil && e2 == nil && len(p1) == 1 && len(p2) == 1, "one ancestor per coarser zoom pair")
	vAssert(p1[0] == vID5(h1, x>>uint(h-h1), y>>uint(h-h1), v1, f>>uint(v-v1)), "ancestor indices are the floored shifts")
	q, e3 := integrate.ChangeExtendedSpatialIdsZoom(p1, h2, v2)
	vAssert(e3 == nil && len(q) == 1 && q[0] == p2[0], "the ancestor of the ancestor is the ancestor (nesting)")
	o1, e4 := CheckExtendedSpatialIdsOverlap(id, p1[0])
	o2, e5 := CheckExtendedSpatialIdsOverlap(p2[0], p1[0])
	o3, e6 := CheckExtendedSpatialIdsOverlap(p2[0], id)
	vAssert(e4 == nil && e5 == nil && e6 == nil && o1 && o2 && o3, "an ID and its ancestors pairwise overlap")
	vReach("end")
}

// VerifC09Cross: the ancestors of one voxel at cross-ordered zoom pairs — (h-a, v) and (h, v-b) —
// both contain the voxel, hence overlap each other and the voxel, in both argument orders.
func VerifC09Cross() {
	h, v := vCase("h"), vCase("v")
	a, b := vCase("a"), vCase("b")
	x, y, f := vNondetInt64("x"), vNondetInt64("y"), vNondetInt64("f")
	vAssume(0 <= x && x < int64(1)<<uint(h) && 0 <= y && y < int64(1)<<uint(h))
	vAssume(-(int64(1)<<uint(v)) <= f && f < int64(1)<<uint(v))
	p := vID5(h-a, x>>uint(a), y>>uint(a), v, f)
	q := vID5(h, x, y, v-b, f>>uint(b))
	o1, e1 := CheckExtendedSpatialIdsOverlap(p, q)
	o2, e2 := CheckExtendedSpatialIdsOverlap(q, p)
	vAssert(e1 == nil && e2 == nil && o1 && o2, "voxels of one point at cross-ordered zoom pairs (coarser horizontally / coarser vertically) overlap")
	vReach("end")
}

// VerifC09TreeNested: the single-zoom forms agree: a spatial ID overlaps each of its children (radix tree).
func VerifC09TreeNested() {
	z := vCase("z")
	x, y, f := vNondetInt64("x"), vNondetInt64("y"), vNondetInt64("f")
	vAssume(0 <= x && x < int64(1)<<uint(z) && 0 <= y && y < int64(1)<<uint(z))
	vAssume(-(int64(1)<<uint(z-1)) <= f && f < int64(1)<<uint(z-1))
	id := vID4(z, f, x, y)
	kids, err := integrate.ChangeSpatialIdsZoom([]string{id}, z+1)
	vAssert(err == nil && len(kids) == 8, "eight children")
	o, e := CheckSpatialIdsArrayOverlap([]string{id}, kids)
	vAssert(e == nil && o, "a spatial ID overlaps its children (tree form)")
	o2, e2 := CheckSpatialIdsArrayOverlap(kids, []string{id})
	vAssert(e2 == nil && o2, "and symmetrically")
	vReach("end")
}
