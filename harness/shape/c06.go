package shape

import (
	"math"
	"strconv"

	"github.com/trajectoryjp/spatial_id_go/v4/common/object"
)

// C06 — line voxelisation, VERTICAL segments only: both end points share one concrete longitude/latitude, the two
// altitudes are arbitrary doubles whose cells are at most `span` apart.  A vertical segment passes through exactly the
// cells between its end cells, so the result must be exactly that contiguous run: no gaps, no strays, no duplicates,
// both end voxels included, one ID when both ends share a cell.  Exact IEEE arithmetic (midpoint = a + (b-a)*0.5,
// cell index = floor(alt*2^v/2^25) are additions and power-of-two scalings).  Cases h, v, span.
func VerifC06Vertical() {
	h, v := vCase("h"), vCase("v")
	span := float64(vCase("span"))
	a := vNondetFloat64("a")
	b := vNondetFloat64("b")
	lim := 33554432.0
	if g := vCase("grid"); g > 0 {
		// altitudes on the grid of 2^-g metres (inputs are the grid coordinates): every midpoint of the recursion is
		// then exact in binary64, the arithmetic is integer arithmetic (decided over Int), and only the recursion
		// logic is in question
		unit := float64(int64(1) << uint(g))
		vAssume(-lim*unit <= a && a < lim*unit && -lim*unit <= b && b < lim*unit)
		a, b = math.Floor(a)/unit, math.Floor(b)/unit
	} else {
		vAssume(-lim <= a && a < lim && -lim <= b && b < lim)
	}
	p, e1 := object.NewPoint(139.75, 35.5, a)
	q, e2 := object.NewPoint(139.75, 35.5, b)
	vAssume(e1 == nil && e2 == nil)
	hid := getHorizontalTileIdOnPoint(139.75, 35.5, h)
	// oracle in the float domain: the cell of an altitude is floor(alt * 2^(v-25)) (a power-of-two scaling: exact)
	scale := math.Pow(2, float64(v-25))
	fa, fb := math.Floor(a*scale), math.Floor(b*scale)
	lo, hi := fa, fb
	if fb < fa {
		lo, hi = fb, fa
	}
	vAssume(hi-lo <= span)
	ids, err := GetExtendedSpatialIdsOnLine(p, q, h, v)
	vAssert(err == nil, "valid points and zooms are accepted")
	vAssert(float64(len(ids)) == hi-lo+1, "one ID per cell between the end cells: no gaps, no strays, no duplicates")
	seenLo, seenHi := false, false
	for i := 0; i < len(ids); i++ {
		s := vSplit(ids[i])
		vAssert(len(s) == 5 && s[0]+"/"+s[1]+"/"+s[2] == hid && s[3] == strconv.FormatInt(v, 10), "every ID keeps the column of the segment and the requested vertical zoom")
		f, perr := strconv.ParseInt(s[4], 10, 64)
		ff := float64(f)
		vAssert(perr == nil && lo <= ff && ff <= hi, "every ID is a cell the segment passes through")
		if ff == lo {
			seenLo = true
		}
		if ff == hi {
			seenHi = true
		}
		for j := 0; j < i; j++ {
			vAssert(ids[i] != ids[j], "duplicate-free")
		}
	}
	vAssert(seenLo && seenHi, "the voxels of both end points are included")
	if vCase("spatial") == 1 {
		// the z/f/x/y form at h = v is the same set
		sids, serr := GetSpatialIdsOnLine(p, q, v)
		vAssert(serr == nil && len(sids) == len(ids), "the spatial-ID form has the same number of IDs")
		for i := 0; i < len(sids); i++ {
			t := vSplit(sids[i])
			vAssert(len(t) == 4, "z/f/x/y")
			found := false
			for j := 0; j < len(ids); j++ {
				s := vSplit(ids[j])
				if t[0] == s[0] && t[0] == s[3] && t[1] == s[4] && t[2] == s[1] && t[3] == s[2] {
					found = true
				}
			}
			vAssert(found, "every spatial ID is one of the extended IDs with h = v")
		}
	}
	vReach("end")
}

// VerifC06SameVoxel: any two valid points that the library's own point lookup puts into one voxel give exactly that
// ID (no recursion).  Float arithmetic uninterpreted: the claim is about the control flow.
func VerifC06SameVoxel() {
	h, v := vCase("h"), vCase("v")
	var pts []*object.Point
	for i := int64(0); i < 2; i++ {
		p, err := object.NewPoint(vNondetFloat64(vN("lon", i)), vNondetFloat64(vN("lat", i)), vNondetFloat64(vN("alt", i)))
		vAssume(err == nil)
		pts = append(pts, p)
	}
	one, e0 := GetExtendedSpatialIdsOnPoints(pts, h, v)
	vAssume(e0 == nil && len(one) == 2 && one[0] == one[1])
	ids, err := GetExtendedSpatialIdsOnLine(pts[0], pts[1], h, v)
	vAssert(err == nil && len(ids) == 1 && ids[0] == one[0], "both end points in one voxel: the result is that single ID")
	vReach("end")
}
