package shape

import (
	"strconv"

	"github.com/trajectoryjp/spatial_id_go/v4/common/object"
)

// VerifC01ListVertical: the list API on 2..3 points that share one concrete longitude / latitude
// and have symbolic altitudes (numeric, relaxed encoding): element i carries the vertical index of
// altitude i — nothing is carried over from a neighbouring point.  Cases n, v.
func VerifC01ListVertical() {
	n := vCase("n")
	v := vCase("v")
	h := int64(20)
	lon, lat := 139.753098, 35.685371
	pts := make([]*object.Point, 0, 3)
	var alts [3]float64
	for i := int64(0); i < n; i++ {
		alts[i] = vNondetFloat64(vN("alt", i))
		vAssume(-1000.0 <= alts[i] && alts[i] <= 1000.0)
		// altitudes are 0 or at least a micrometre in magnitude: subnormal quotients (the listed
		// denormal-altitude finding of the vertical kernel) are the subject of VerifC01F, not of this harness
		vAssume(alts[i] == 0 || alts[i] >= 1.0e-6 || alts[i] <= -1.0e-6)
		p, err := object.NewPoint(lon, lat, alts[i])
		vAssume(err == nil)
		pts = append(pts, p)
	}
	got, err := GetExtendedSpatialIdsOnPoints(pts, h, v)
	vAssert(err == nil && int64(len(got)) == n, "one ID per point")
	res := vRDiv(vRI(int64(1)<<25), vRI(int64(1)<<uint(v)))
	ok := true
	for i := 0; i < len(got) && i < int(n); i++ {
		parts := vSplit(got[i])
		f, e := strconv.ParseInt(parts[len(parts)-1], 10, 64)
		lo := vRMul(vRI(f), res)
		hi := vRMul(vRAdd(vRI(f), vRI(1)), res)
		a := vR(alts[i])
		if e != nil || len(parts) != 5 || !(vRLe(lo, a) && vRLt(a, hi)) {
			ok = false
		}
	}
	vAssert(ok, "element i holds the vertical cell of altitude i: f*2^(25-v) <= alt_i < (f+1)*2^(25-v)")
	vReach("end")
}
