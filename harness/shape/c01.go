package shape

import (
	"strconv"

	"github.com/trajectoryjp/spatial_id_go/v4/common/object"
)

// C01 — a point is mapped to the one grid voxel that contains it.

func vPow2(k int64) float64 { // exact 2^k for 0 <= k <= 62
	return float64(int64(1) << uint(k))
}

// VerifC01F: vertical kernel, exact IEEE-754 claim.  Case v; alt symbolic over the documented domain.
func VerifC01F() {
	v := vCase("v")
	alt := vNondetFloat64("alt")
	vAssume(-33554432.0 <= alt && alt <= 33554432.0)
	s := getVerticalTileIdOnAltitude(alt, v)
	p := vSplit(s)
	vAssert(len(p) == 2 && p[0] == strconv.FormatInt(v, 10), "vertical ID is vZoom/f")
	f, err := strconv.ParseInt(p[1], 10, 64)
	vAssert(err == nil, "f is an integer")
	res := vPow2(25) / vPow2(v)
	lo := float64(f) * res
	hi := float64(f+1) * res
	// known finding: a negative altitude so small that alt/res underflows to -0 gets f = 0
	under := alt < 0 && alt/res == 0
	vAssert(vKnown("KF-C01-denormal-altitude", under) || (lo <= alt && alt < hi), "f*2^(25-v) <= alt < (f+1)*2^(25-v) (floor, also below ground)")
	vReach("end")
}

// VerifC01X: longitude kernel, banded claim proved in the relaxed (real + rounding error) encoding.
// Case h; lon symbolic in [-180, 180].
func VerifC01X() {
	h := vCase("h")
	lon := vNondetFloat64("lon")
	vAssume(-180.0 <= lon && lon <= 180.0)
	s := getHorizontalTileIdOnPoint(lon, 0, h)
	p := vSplit(s)
	vAssert(len(p) == 3 && p[0] == strconv.FormatInt(h, 10), "horizontal ID is hZoom/x/y")
	x, err := strconv.ParseInt(p[1], 10, 64)
	vAssert(err == nil, "x is an integer")
	n := int64(1) << uint(h)
	vAssert(0 <= x && x < n, "0 <= x < 2^h (also for longitudes just below 180)")
	lonp := lon
	if lon == 180 {
		lonp = -180
	}
	// exact reals: tile x is [x*360/n - 180, (x+1)*360/n - 180)
	nr := vRI(n)
	c360, c180 := vRI(360), vRI(180)
	lo := vRSub(vRDiv(vRMul(vRI(x), c360), nr), c180)
	hi := vRSub(vRDiv(vRMul(vRAdd(vRI(x), vRI(1)), c360), nr), c180)
	// the evaluation error of floor(2^h*((lon+180)/360)) is below 360*2^-52 degrees at every zoom (one rounding of
	// the sum, one of the quotient, the power-of-two product is exact); the band is twice that
	eps := vRDiv(c360, vRI(int64(1)<<51))
	lr := vR(lonp)
	nearLo := vRLt(vRSub(lo, eps), lr) && vRLt(lr, vRAdd(lo, eps))
	nearHi := vRLt(vRSub(hi, eps), lr) && vRLt(lr, vRAdd(hi, eps))
	vAssert(vKnown("KF-C01-x-rounding-band", nearLo || nearHi) || (vRLe(lo, lr) && vRLt(lr, hi)), "x tile contains lon: x = floor(2^h (lon+180)/360), 180 treated as -180")
	vReach("end")
}

// VerifC01Y: the latitude row is a function of (lat, h) only and sits in its field; libm is uninterpreted.
func VerifC01Y() {
	h := vCase("h")
	lat := vNondetFloat64("lat")
	lon1 := vNondetFloat64("lon1")
	lon2 := vNondetFloat64("lon2")
	vAssume(-85.0511287798 <= lat && lat <= 85.0511287798)
	vAssume(-180.0 <= lon1 && lon1 <= 180.0 && -180.0 <= lon2 && lon2 <= 180.0)
	a := vSplit(getHorizontalTileIdOnPoint(lon1, lat, h))
	b := vSplit(getHorizontalTileIdOnPoint(lon2, lat, h))
	vAssert(len(a) == 3 && len(b) == 3 && a[2] == b[2], "the row index depends on the latitude and zoom only")
	vReach("end")
}

// VerifC01List: list API: length and order kept, each element is hID(point)/vID(point), and the
// spatial-ID form is the same voxel with h = v in z/f/x/y order.  Case n (0..3), h, v.
func VerifC01List() {
	n := vCase("n")
	h := vCase("h")
	v := vCase("v")
	pts := make([]*object.Point, 0, 3)
	var want []string
	for i := int64(0); i < n; i++ {
		lon := vNondetFloat64(vN("lon", i))
		lat := vNondetFloat64(vN("lat", i))
		alt := vNondetFloat64(vN("alt", i))
		vAssume(-180.0 <= lon && lon <= 180.0 && -85.05 <= lat && lat <= 85.05 && -33554432.0 <= alt && alt <= 33554432.0) // the exact latitude limit is C15's subject
		p, err := object.NewPoint(lon, lat, alt)
		vAssume(err == nil) // acceptance of the documented domain is C15's subject (VerifC15Point)
		pts = append(pts, p)
		want = append(want, getHorizontalTileIdOnPoint(p.Lon(), p.Lat(), h)+"/"+getVerticalTileIdOnAltitude(p.Alt(), v))
	}
	vFrameBegin("GetExtendedSpatialIdsOnPoints")
	got, err := GetExtendedSpatialIdsOnPoints(pts, h, v)
	vFrameEnd()
	vAssert(err == nil && int64(len(got)) == n, "one ID per point")
	same := true
	for i := 0; i < len(got) && i < len(want); i++ {
		if got[i] != want[i] {
			same = false
		}
	}
	vAssert(same, "element i is the voxel of point i (order kept)")
	if h == v {
		sp, err2 := GetSpatialIdsOnPoints(pts, h)
		vAssert(err2 == nil && int64(len(sp)) == n, "one spatial ID per point")
		ok := true
		for i := 0; i < len(sp) && i < len(got); i++ {
			a, b := vSplit(got[i]), vSplit(sp[i])
			if len(a) != 5 || len(b) != 4 || b[0] != a[0] || b[1] != a[4] || b[2] != a[1] || b[3] != a[2] {
				ok = false
			}
		}
		vAssert(ok, "the spatial-ID form is z/f/x/y of the same voxel")
	}
	vReach("end")
}

// VerifC09PointVertical (C09): the vertical index of a point at a coarser zoom is the zoom-out
// (floor shift) of its index at a finer zoom.  Cases vf (fine), vc (coarse); exact IEEE.
func VerifC09PointVertical() {
	vf := vCase("vf")
	vc := vCase("vc")
	alt := vNondetFloat64("alt")
	vAssume(-33554432.0 <= alt && alt <= 33554432.0)
	resf := vPow2(25) / vPow2(vf)
	vAssume(!(alt < 0 && alt/resf == 0)) // known finding KF-C01-denormal-altitude region
	resc := vPow2(25) / vPow2(vc)
	vAssume(!(alt < 0 && alt/resc == 0))
	a := vSplit(getVerticalTileIdOnAltitude(alt, vf))
	b := vSplit(getVerticalTileIdOnAltitude(alt, vc))
	ff, e1 := strconv.ParseInt(a[1], 10, 64)
	fc, e2 := strconv.ParseInt(b[1], 10, 64)
	vAssert(e1 == nil && e2 == nil, "indices are integers")
	vAssert(fc == ff>>uint(vf-vc), "coarse index = floor(fine index / 2^d)")
	vReach("end")
}
