package shape

import (
	"github.com/trajectoryjp/spatial_id_go/v4/common/enum"
	"github.com/trajectoryjp/spatial_id_go/v4/common/object"
)

// C15 (shape) — nil points, invalid zooms, malformed IDs, unknown options.

// VerifC15PointsZoom: every int64 zoom outside 0..35 -> error and empty list; a nil point -> error.
func VerifC15PointsZoom() {
	hz := vNondetInt64("hz")
	vz := vNondetInt64("vz")
	which := vCase("which")
	p, _ := object.NewPoint(10, 20, 30)
	pts := []*object.Point{p}
	if which == 1 {
		pts = []*object.Point{p, nil}
		vAssume(0 <= hz && hz <= 35 && 0 <= vz && vz <= 35)
	} else {
		vAssume(hz < 0 || hz > 35 || vz < 0 || vz > 35)
	}
	got, err := GetExtendedSpatialIdsOnPoints(pts, hz, vz)
	vAssert(err != nil, "invalid zoom / nil point is an error")
	vAssert(len(got) == 0, "with the empty list")
	if hz == vz {
		got2, err2 := GetSpatialIdsOnPoints(pts, hz)
		vAssert(err2 != nil && len(got2) == 0, "same for the spatial-ID variant")
	}
	if which == 1 {
		_, e3 := GetExtendedSpatialIdsOnLine(nil, p, hz, vz)
		_, e4 := GetExtendedSpatialIdsOnLine(p, nil, hz, vz)
		_, e5 := GetSpatialIdsOnLine(nil, nil, hz)
		vAssert(e3 != nil && e4 != nil && e5 != nil, "nil end points of a line are an error")
	} else {
		got3, e3 := GetExtendedSpatialIdsOnLine(p, p, hz, vz)
		vAssert(e3 != nil && len(got3) == 0, "invalid zoom for a line is an error with the empty list")
	}
	vReach("end")
}

// VerifC15PointOnID: malformed ID, zoom field outside 0..35, unknown option.
func VerifC15PointOnID() {
	which := vCase("which")
	switch which {
	case 0:
		s := vNondetString("s", 7)
		vAssume(!vWF(s, 5))
		vAssume(vZoomMax(s, 0, 3) && vZoomMax(s, 3, 3) && vIdxMax(s, 8))
		got, err := GetPointOnExtendedSpatialId(s, enum.Vertex)
		vAssert(err != nil && len(got) == 0, "a malformed extended ID is an error with no points")
	case 1:
		s := vNondetString("s", 7)
		vAssume(!vWF(s, 4))
		vAssume(vZoomMax(s, 0, 3) && vIdxMax(s, 8))
		got, err := GetPointOnSpatialId(s, enum.Center)
		vAssert(err != nil && len(got) == 0, "a malformed spatial ID is an error with no points")
	case 2:
		hz := vNondetInt64("hz")
		vz := vNondetInt64("vz")
		vAssume(hz < 0 || hz > 35 || vz < 0 || vz > 35)
		got, err := GetPointOnExtendedSpatialId(vID5(hz, 0, 0, vz, 0), enum.Vertex)
		vAssert(err != nil && len(got) == 0, "zoom fields outside 0..35 are an error")
	default:
		o := vNondetInt64("o")
		vAssume(o != 0 && o != 1)
		got, err := GetPointOnExtendedSpatialId("3/1/2/3/-1", enum.PointOption(o))
		vAssert(err != nil && len(got) == 0, "an option other than Vertex/Center is an error")
	}
	vReach("end")
}
