package shape

// C10 (notation part) — rewriting spatial IDs as extended IDs and back is the identity,
// component by component, for every text in the fields.

// VerifC10Notation: case n (list length 0..3); every ID has exactly 4 arbitrary fields.
func VerifC10Notation() {
	n := vCase("n")
	ids := make([]string, 0, 3)
	for i := int64(0); i < n; i++ {
		ids = append(ids, vNondetStringN(vN("s", i), 4))
	}
	vFrameBegin("ConvertSpatialIdsToExtendedSpatialIds")
	ext, err := ConvertSpatialIdsToExtendedSpatialIds(ids)
	vFrameEnd()
	vAssert(err == nil, "4-field IDs are accepted")
	vAssert(int64(len(ext)) == n, "list length is kept")
	back, err2 := ConvertExtendedSpatialIdsToSpatialIds(ext)
	vAssert(err2 == nil, "the produced extended IDs are accepted back")
	vAssert(int64(len(back)) == n, "list length is kept on the way back")
	same := true
	for i := 0; i < len(back) && i < len(ids); i++ {
		if back[i] != ids[i] {
			same = false
		}
	}
	vAssert(same, "back(forth(id)) == id for every element, in order")
	vReach("end")
}

// VerifC10NotationExt: the other direction starting from 5-field extended IDs whose two
// zoom fields agree (the form the spatial notation can express).
func VerifC10NotationExt() {
	n := vCase("n")
	ids := make([]string, 0, 3)
	for i := int64(0); i < n; i++ {
		z := vNondetInt64(vN("z", i))
		x := vNondetInt64(vN("x", i))
		y := vNondetInt64(vN("y", i))
		f := vNondetInt64(vN("f", i))
		ids = append(ids, vID5(z, x, y, z, f))
	}
	sp, err := ConvertExtendedSpatialIdsToSpatialIds(ids)
	vAssert(err == nil, "5-field IDs are accepted")
	ext, err2 := ConvertSpatialIdsToExtendedSpatialIds(sp)
	vAssert(err2 == nil, "the produced spatial IDs are accepted back")
	vAssert(len(sp) == len(ids) && len(ext) == len(ids), "list length is kept")
	same := true
	for i := 0; i < len(ext) && i < len(ids); i++ {
		if ext[i] != ids[i] {
			same = false
		}
	}
	vAssert(same, "forth(back(id)) == id when hZoom == vZoom")
	vReach("end")
}

// VerifC10Arity: a string whose arity is not 4 (resp. 5) is refused.
func VerifC10Arity() {
	s := vNondetString("s", 7)
	ext, err := ConvertSpatialIdsToExtendedSpatialIds([]string{s})
	sp, err2 := ConvertExtendedSpatialIdsToSpatialIds([]string{s})
	// arity is what strings.Split reports; accepted implies exactly one output
	if err == nil {
		vAssert(len(ext) == 1, "accepted 4-field ID gives one output")
	}
	if err2 == nil {
		vAssert(len(sp) == 1, "accepted 5-field ID gives one output")
	}
	vAssert(err != nil || err2 != nil, "no string is both a 4-field and a 5-field ID")
	vReach("end")
}
