package shape

import (
	"github.com/trajectoryjp/spatial_id_go/v4/common/enum"
)

// C02 — an ID is mapped back to the geometry of its voxel, and the grid tiles space.

// vRow: the latitude row is case-split (row 0, the row just north of the equator, the last row):
// the row latitudes are then concrete values computed by the real libm, and only x and f are symbolic.
func vRow(n int64) int64 {
	switch vCase("row") {
	case 0:
		return 0
	case 1:
		if n >= 2 {
			return n/2 - 1
		}
		return 0
	}
	return n - 1
}

func vNear(a float64, exact vReal, tol vReal) bool {
	d := vRSub(vR(a), exact)
	return vRLt(vRSub(vRI(0), tol), d) && vRLt(d, tol)
}

// VerifC02Vertex: cases h, v; x, y, f symbolic.  Relaxed encoding; latitudes are uninterpreted (libm).
func VerifC02Vertex() {
	h, v := vCase("h"), vCase("v")
	x, f := vNondetInt64("x"), vNondetInt64("f")
	n := int64(1) << uint(h)
	y := vRow(n)
	vAssume(0 <= x && x < n)
	vAssume(-(int64(1)<<uint(v)) <= f && f < int64(1)<<uint(v))
	ps, err := GetPointOnExtendedSpatialId(vID5(h, x, y, v, f), enum.Vertex)
	vAssert(err == nil && len(ps) == 8, "eight corners")
	// altitude: bottom = f * 2^(25-v), top = (f+1) * 2^(25-v), exactly
	res := vRDiv(vRI(int64(1)<<25), vRI(int64(1)<<uint(v)))
	bot := vRMul(vRI(f), res)
	top := vRMul(vRAdd(vRI(f), vRI(1)), res)
	okAlt := true
	for i := 0; i < 8; i++ {
		want := bot
		if i >= 4 {
			want = top
		}
		a := vR(ps[i].Alt())
		// a corner whose latitude was refused by NewPoint keeps latitude 0 and altitude 0; whether the
		// row latitudes are always accepted is a property of libm (atan, sinh) and is not decided here
		if !(vRLe(a, want) && vRLe(want, a)) {
			okAlt = false
		}
	}
	vAssert(okAlt, "corners 0-3 are at the bottom altitude f*2^(25-v), corners 4-7 at the top (f+1)*2^(25-v), exactly")
	// longitude: west / east edges within 1e-11 degrees of the exact tile edges, in the order NW,NE,SE,SW
	nr := vRI(n)
	west := vRSub(vRDiv(vRMul(vRI(x), vRI(360)), nr), vRI(180))
	east := vRSub(vRDiv(vRMul(vRAdd(vRI(x), vRI(1)), vRI(360)), nr), vRI(180))
	tol := vRDiv(vRI(1), vRI(100000000000))
	okLon := true
	for i := 0; i < 8; i++ {
		k := i % 4
		want := west
		if k == 1 || k == 2 {
			want = east
		}
		if !vNear(ps[i].Lon(), want, tol) {
			okLon = false
		}
	}
	vAssert(okLon, "corner longitudes are the tile's west/east edges (NW,NE,SE,SW order, bottom then top)")
	vReach("end")
}

// VerifC02VertexStruct: structure-only (float operations uninterpreted): which corners share which
// coordinate.  North latitude on corners 0,1,4,5, south on 2,3,6,7; west longitude on 0,3,4,7, east
// on 1,2,5,6; bottom altitude on 0-3, top on 4-7.
func VerifC02VertexStruct() {
	h, v := vCase("h"), vCase("v")
	x, f := vNondetInt64("x"), vNondetInt64("f")
	n := int64(1) << uint(h)
	y := vRow(n)
	vAssume(0 <= x && x < n)
	vAssume(-(int64(1)<<uint(v)) <= f && f < int64(1)<<uint(v))
	ps, err := GetPointOnExtendedSpatialId(vID5(h, x, y, v, f), enum.Vertex)
	vAssert(err == nil && len(ps) == 8, "eight corners")
	okLat := ps[0].Lat() == ps[1].Lat() && ps[0].Lat() == ps[4].Lat() && ps[0].Lat() == ps[5].Lat() &&
		ps[2].Lat() == ps[3].Lat() && ps[2].Lat() == ps[6].Lat() && ps[2].Lat() == ps[7].Lat()
	vAssert(okLat, "north latitude on corners 0,1,4,5 and south latitude on corners 2,3,6,7")
	okLon := ps[0].Lon() == ps[3].Lon() && ps[0].Lon() == ps[4].Lon() && ps[0].Lon() == ps[7].Lon() &&
		ps[1].Lon() == ps[2].Lon() && ps[1].Lon() == ps[5].Lon() && ps[1].Lon() == ps[6].Lon()
	vAssert(okLon, "west longitude on corners 0,3,4,7 and east longitude on corners 1,2,5,6")
	vReach("end")
}

// VerifC02Faces: voxels that share a face report the same coordinate for it, bit for bit.
// Decided in exact IEEE arithmetic on the kernels: (1) top(f) = Alt(f)+Resolution is the very
// double Alt(f+1); (2) float64(x)+1 is the very double float64(x+1) (and likewise for y), and the
// east edge of x / south edge of y are computed from that value by the same expression that
// computes the west edge of x+1 / north edge of y+1 (getVertexOnVoxelOffset), hence equal.
func VerifC02Faces() {
	h, v := vCase("h"), vCase("v")
	x, f := vNondetInt64("x"), vNondetInt64("f")
	n := int64(1) << uint(h)
	vAssume(0 <= x && x < n)
	vAssume(-(int64(1)<<uint(v)) <= f && f < int64(1)<<uint(v))
	a := getAltitudeOnVerticalIndexAndZoom(f, v)
	b := getAltitudeOnVerticalIndexAndZoom(f+1, v)
	vAssert(a.Alt+a.Resolution == b.Alt, "top of f is the bottom of f+1 (same double)")
	vAssert(a.Resolution == b.Resolution, "the resolution depends on the zoom only")
	vAssert(float64(x)+1.0 == float64(x+1), "float64(x)+1 is float64(x+1): the east edge of x and the west edge of x+1 are the same expression of the same value")
	vReach("end")
}

// VerifC02Center: the centre query returns the midpoint, and converting the centre back to an ID
// at the same zooms returns the original x and f (the y half needs libm and is not decided).
func VerifC02Center() {
	h, v := vCase("h"), vCase("v")
	x, f := vNondetInt64("x"), vNondetInt64("f")
	n := int64(1) << uint(h)
	y := vRow(n)
	vAssume(0 <= x && x < n)
	vAssume(-(int64(1)<<uint(v)) <= f && f < int64(1)<<uint(v))
	cs, err := GetPointOnExtendedSpatialId(vID5(h, x, y, v, f), enum.Center)
	vAssert(err == nil && len(cs) == 1, "one centre point")
	c := cs[0]
	nr := vRI(n)
	mid := vRSub(vRDiv(vRMul(vRAdd(vRMul(vRI(x), vRI(2)), vRI(1)), vRI(180)), nr), vRI(180)) // (x+1/2)*360/n - 180
	vAssert(vNear(c.Lon(), mid, vRDiv(vRI(1), vRI(100000000000))), "centre longitude is the middle of the tile")
	res := vRDiv(vRI(int64(1)<<25), vRI(int64(1)<<uint(v)))
	ma := vRMul(vRAdd(vRMul(vRI(f), vRI(2)), vRI(1)), vRDiv(res, vRI(2)))
	ca := vR(c.Alt())
	vAssert(vRLe(ca, ma) && vRLe(ma, ca), "centre altitude is exactly (f+1/2)*2^(25-v)")
	// centre -> ID round trip: follows from this harness (centre within 1e-11 degrees of the exact
	// middle, altitude exactly (f+1/2)*2^(25-v)) together with C01's kernels (a longitude at least
	// 360*2^-51 degrees from the tile edges maps to its tile; the vertical kernel is exact); the direct
	// query on the composed code was "unknown" at 120 s for most zooms and is not part of the claim.
	vReach("end")
}

// VerifC02Spatial: the z/f/x/y entry point returns the same points as the extended one.
func VerifC02Spatial() {
	z := vCase("z")
	x, f := vNondetInt64("x"), vNondetInt64("f")
	n := int64(1) << uint(z)
	y := vRow(n)
	vAssume(0 <= x && x < n && -n <= f && f < n)
	a, e1 := GetPointOnSpatialId(vID4(z, f, x, y), enum.Vertex)
	b, e2 := GetPointOnExtendedSpatialId(vID5(z, x, y, z, f), enum.Vertex)
	vAssert(e1 == nil && e2 == nil && len(a) == 8 && len(b) == 8, "both forms accepted")
	same := true
	for i := 0; i < 8; i++ {
		if a[i].Lon() != b[i].Lon() || a[i].Lat() != b[i].Lat() || a[i].Alt() != b[i].Alt() {
			same = false
		}
	}
	vAssert(same, "z/f/x/y and z/x/y/z/f name the same corners")
	vReach("end")
}
