package shape

import (
	"github.com/trajectoryjp/spatial_id_go/v4/common/consts"
	"github.com/trajectoryjp/spatial_id_go/v4/common/object"
	"github.com/wroge/wgs84"
)

// C18 (structure) — projection to a planar CRS and back: argument order, source/target order,
// altitude pass-through, list length and order, unknown EPSG codes.  The transform itself
// (third-party transcendental code) is an uninterpreted function; its numeric accuracy is not decided.

// VerifC18Forward: cases n (0..3), code.
func VerifC18Forward() {
	n := vCase("n")
	code := int(vCase("code"))
	known := vCase("known") == 1
	pts := make([]*object.Point, 0, 3)
	for i := int64(0); i < n; i++ {
		// the latitude is one of two concrete values (chosen per point): NewPoint's latitude arithmetic is
		// then concrete, so that solver models replay natively; longitude and altitude are stored as given
		lon, alt := vNondetFloat64(vN("lon", i)), vNondetFloat64(vN("alt", i))
		lat := 12.5
		if vChoice(vN("latsel", i), 2) == 1 {
			lat = -33.25
		}
		vAssume(-180.0 <= lon && lon <= 180.0 && -1.0e6 <= alt && alt <= 1.0e6)
		p, err := object.NewPoint(lon, lat, alt)
		vAssume(err == nil)
		pts = append(pts, p)
	}
	vFrameBegin("ConvertPointListToProjectedPointList")
	got, err := ConvertPointListToProjectedPointList(pts, code)
	vFrameEnd()
	if !known && n > 0 {
		vAssert(err != nil, "an unknown EPSG code is a conversion error")
		vReach("end")
		return
	}
	tx := wgs84.SafeTransform(wgs84.EPSG().Code(consts.GeoCrs), wgs84.EPSG().Code(code))
	anyErr := false
	ok := true
	for i := int64(0); i < n; i++ {
		x, y, _, e := tx(pts[i].Lon(), pts[i].Lat(), pts[i].Alt())
		if e != nil {
			anyErr = true
			break
		}
		if err == nil && int64(len(got)) == n {
			g := got[i]
			if g.X != x || g.Y != y || g.Alt != pts[i].Alt() {
				ok = false
			}
		}
	}
	if anyErr {
		vAssert(err != nil, "a transform error on any point is a conversion error")
	} else {
		vAssert(err == nil && int64(len(got)) == n, "one projected point per input point")
		vAssert(ok, "element i is transform(4326 -> code)(lon_i, lat_i, alt_i) in x, y and the input altitude unchanged")
	}
	vReach("end")
}

// VerifC18Inverse: cases n, code.
func VerifC18Inverse() {
	n := vCase("n")
	code := int(vCase("code"))
	known := vCase("known") == 1
	pps := make([]*object.ProjectedPoint, 0, 3)
	for i := int64(0); i < n; i++ {
		x, y, alt := vNondetFloat64(vN("x", i)), vNondetFloat64(vN("y", i)), vNondetFloat64(vN("alt", i))
		vAssume(-2.0e7 <= x && x <= 2.0e7 && -2.0e7 <= y && y <= 2.0e7 && -1.0e6 <= alt && alt <= 1.0e6)
		pps = append(pps, &object.ProjectedPoint{X: x, Y: y, Alt: alt})
	}
	got, err := ConvertProjectedPointListToPointList(pps, code)
	if !known && n > 0 {
		vAssert(err != nil, "an unknown EPSG code is a conversion error")
		vReach("end")
		return
	}
	tx := wgs84.SafeTransform(wgs84.EPSG().Code(code), wgs84.EPSG().Code(consts.GeoCrs))
	anyErr := false
	ok := true
	for i := int64(0); i < n; i++ {
		x, y, _, e := tx(pps[i].X, pps[i].Y, pps[i].Alt)
		if e != nil {
			anyErr = true
			break
		}
		if err == nil && int64(len(got)) == n {
			want, _ := object.NewPoint(x, y, pps[i].Alt)
			g := got[i]
			if g.Lon() != want.Lon() || g.Lat() != want.Lat() || g.Alt() != want.Alt() {
				ok = false
			}
		}
	}
	if anyErr {
		vAssert(err != nil, "a transform error on any point is a conversion error")
	} else {
		vAssert(err == nil && int64(len(got)) == n, "one geographic point per input point")
		vAssert(ok, "element i is NewPoint(transform(code -> 4326)(X_i, Y_i, Alt_i) in lon, lat; the input altitude)")
	}
	vReach("end")
}
