package integrate

import "github.com/trajectoryjp/spatial_id_go/v4/common/object"

// C03 — changing zoom yields exactly the voxels that refine or contain the input.

// VerifC03Vertical: per-axis helper, vertical.  Cases: vz (input zoom), out (output zoom).
func VerifC03Vertical() {
	vz := vCase("vz")
	out := vCase("out")
	f := vNondetInt64("f")
	vAssume(-(int64(1)<<uint(vz)) <= f && f < int64(1)<<uint(vz))
	got := VerticalZoom(vz, f, out)
	if out <= vz {
		vAssert(len(got) == 1, "zoom-out returns one ancestor")
		vAssert(got[0] == vID2(out, f>>uint(vz-out)), "ancestor is floor(f / 2^d), also below ground")
	} else {
		d := uint(out - vz)
		vAssert(int64(len(got)) == int64(1)<<d, "zoom-in returns 2^d descendants")
		for i := 0; i < len(got); i++ {
			vAssert(got[i] == vID2(out, f<<d+int64(i)), "descendants are f*2^d .. f*2^d + 2^d - 1 in order")
		}
	}
	vReach("end")
}

// VerifC03Horizontal: per-axis helper, horizontal.  Cases: hz, out.
func VerifC03Horizontal() {
	hz := vCase("hz")
	out := vCase("out")
	x := vNondetInt64("x")
	y := vNondetInt64("y")
	vAssume(0 <= x && x < int64(1)<<uint(hz))
	vAssume(0 <= y && y < int64(1)<<uint(hz))
	got := HorizontalZoom(hz, x, y, out)
	mnx, mny, mxx, mxy := HorizontalZoomMinMax(hz, x, y, out)
	if out <= hz {
		d := uint(hz - out)
		vAssert(len(got) == 1, "zoom-out returns one ancestor")
		vAssert(got[0] == vID3(out, x>>d, y>>d), "ancestor is (x>>d, y>>d)")
		vAssert(mnx == x>>d && mxx == x>>d && mny == y>>d && mxy == y>>d, "min/max form agrees")
	} else {
		d := uint(out - hz)
		n := int64(1) << d
		vAssert(int64(len(got)) == n*n, "zoom-in returns 4^d descendants")
		vAssert(mnx == x<<d && mxx == x<<d+n-1 && mny == y<<d && mxy == y<<d+n-1, "min/max form is the descendant square")
		px := vNondetInt64("px")
		py := vNondetInt64("py")
		vAssume(0 <= px && px < n && 0 <= py && py < n)
		want := vID3(out, x<<d+px, y<<d+py)
		found := false
		for i := 0; i < len(got); i++ {
			if got[i] == want {
				found = true
			}
		}
		vAssert(found, "every descendant (x*2^d+i, y*2^d+j) is returned")
		for i := 0; i < len(got); i++ {
			for j := i + 1; j < len(got); j++ {
				vAssert(got[i] != got[j], "descendants are pairwise distinct")
			}
		}
	}
	vReach("end")
}

// VerifC03Change: the list API on n <= 2 IDs of (possibly different) zooms.
// Cases: n, H, V, h0, v0 [, h1, v1]; symbolic: all indices, and a probe cell of the target grid.
func VerifC03Change() {
	n := vCase("n")
	H := vCase("H")
	V := vCase("V")
	var hs, vs, xs, ys, fs [2]int64
	ids := make([]string, 0, 2)
	for i := int64(0); i < n; i++ {
		hs[i] = vCase(vN("h", i))
		vs[i] = vCase(vN("v", i))
		xs[i] = vNondetInt64(vN("x", i))
		ys[i] = vNondetInt64(vN("y", i))
		fs[i] = vNondetInt64(vN("f", i))
		vAssume(0 <= xs[i] && xs[i] < int64(1)<<uint(hs[i]))
		vAssume(0 <= ys[i] && ys[i] < int64(1)<<uint(hs[i]))
		vAssume(-(int64(1)<<uint(vs[i])) <= fs[i] && fs[i] < int64(1)<<uint(vs[i]))
		ids = append(ids, vID5(hs[i], xs[i], ys[i], vs[i], fs[i]))
	}
	px := vNondetInt64("px")
	py := vNondetInt64("py")
	pf := vNondetInt64("pf")
	vAssume(0 <= px && px < int64(1)<<uint(H))
	vAssume(0 <= py && py < int64(1)<<uint(H))
	vAssume(-(int64(1)<<uint(V)) <= pf && pf < int64(1)<<uint(V))

	vFrameBegin("ChangeExtendedSpatialIdsZoom")
	got, err := ChangeExtendedSpatialIdsZoom(ids, H, V)
	vFrameEnd()
	vAssert(err == nil, "valid IDs and zooms are accepted")

	covered := false
	for i := int64(0); i < n; i++ {
		if vInter1(hs[i], xs[i], H, px) && vInter1(hs[i], ys[i], H, py) && vInter1(vs[i], fs[i], V, pf) {
			covered = true
		}
	}
	probe := vID5(H, px, py, V, pf)
	found := false
	for i := 0; i < len(got); i++ {
		if got[i] == probe {
			found = true
		}
		o, e := object.NewExtendedSpatialID(got[i])
		vAssert(e == nil, "outputs are well-formed extended IDs")
		vAssert(o.HZoom() == H && o.VZoom() == V, "outputs are at the requested zooms")
	}
	vAssert(found == covered, "a target-grid cell is returned iff it intersects an input voxel")
	for i := 0; i < len(got); i++ {
		for j := i + 1; j < len(got); j++ {
			vAssert(got[i] != got[j], "no ID is returned twice")
		}
	}
	if n == 1 && H >= hs[0] && V >= vs[0] {
		vAssert(int64(len(got)) == int64(1)<<uint(2*(H-hs[0])+(V-vs[0])), "4^dh * 2^dv descendants")
	}
	vReach("end")
}

// VerifC03ChangeSpatial: the single-zoom API (z/f/x/y notation) agrees with the extended one.
// Cases: z0, Z; symbolic: indices and probe.
func VerifC03ChangeSpatial() {
	z0 := vCase("z0")
	Z := vCase("Z")
	x := vNondetInt64("x")
	y := vNondetInt64("y")
	f := vNondetInt64("f")
	vAssume(0 <= x && x < int64(1)<<uint(z0))
	vAssume(0 <= y && y < int64(1)<<uint(z0))
	vAssume(-(int64(1)<<uint(z0)) <= f && f < int64(1)<<uint(z0))
	px := vNondetInt64("px")
	py := vNondetInt64("py")
	pf := vNondetInt64("pf")
	vAssume(0 <= px && px < int64(1)<<uint(Z))
	vAssume(0 <= py && py < int64(1)<<uint(Z))
	vAssume(-(int64(1)<<uint(Z)) <= pf && pf < int64(1)<<uint(Z))
	got, err := ChangeSpatialIdsZoom([]string{vID4(z0, f, x, y)}, Z)
	vAssert(err == nil, "valid ID and zoom are accepted")
	covered := vInter1(z0, x, Z, px) && vInter1(z0, y, Z, py) && vInter1(z0, f, Z, pf)
	probe := vID4(Z, pf, px, py)
	found := false
	for i := 0; i < len(got); i++ {
		if got[i] == probe {
			found = true
		}
	}
	vAssert(found == covered, "a target-grid cell (z/f/x/y) is returned iff it intersects the input voxel")
	for i := 0; i < len(got); i++ {
		for j := i + 1; j < len(got); j++ {
			vAssert(got[i] != got[j], "no ID is returned twice")
		}
	}
	vReach("end")
}
