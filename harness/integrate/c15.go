package integrate

// C15 (integrate) — malformed IDs and out-of-range zooms are rejected with an error and the
// documented empty list, never a panic.

const vGood5 = "3/1/2/3/-1"
const vGood4 = "3/-1/1/2"

// VerifC15IntegrateExt: case pos (0: malformed alone, 1: after a good ID, 2: before a good ID), fn (0 change, 1 merge).
func VerifC15IntegrateExt() {
	s := vNondetString("s", 7)
	pos := vCase("pos")
	fn := vCase("fn")
	vAssume(!vWF(s, 5))
	vAssume(vIdxSane(s))
	vAssume(vZoomMax(s, 0, 3) && vZoomMax(s, 3, 3))
	var ids []string
	switch pos {
	case 0:
		ids = []string{s}
	case 1:
		ids = []string{vGood5, s}
	default:
		ids = []string{s, vGood5}
	}
	var got []string
	var err error
	if fn == 0 {
		got, err = ChangeExtendedSpatialIdsZoom(ids, 3, 3)
	} else {
		got, err = MergeExtendedSpatialIds(ids, 3, 3)
	}
	vAssert(err != nil, "a list containing a malformed extended ID is an error")
	_ = got // the documentation promises the empty list only for invalid zooms
	vReach("end")
}

// VerifC15IntegrateSpatial: same for the z/f/x/y API.
func VerifC15IntegrateSpatial() {
	s := vNondetString("s", 7)
	pos := vCase("pos")
	fn := vCase("fn")
	vAssume(!vWF(s, 4))
	vAssume(vIdxSane(s))
	vAssume(vZoomMax(s, 0, 3))
	var ids []string
	switch pos {
	case 0:
		ids = []string{s}
	case 1:
		ids = []string{vGood4, s}
	default:
		ids = []string{s, vGood4}
	}
	var got []string
	var err error
	if fn == 0 {
		got, err = ChangeSpatialIdsZoom(ids, 3)
	} else {
		got, err = MergeSpatialIds(ids, 3)
	}
	vAssert(err != nil, "a list containing a malformed spatial ID is an error")
	_ = got
	vReach("end")
}

// VerifC15IntegrateZoom: every int64 zoom outside 0..35 is an error with an empty list.
func VerifC15IntegrateZoom() {
	hz := vNondetInt64("hz")
	vz := vNondetInt64("vz")
	fn := vCase("fn")
	vAssume(hz < 0 || hz > 35 || vz < 0 || vz > 35)
	var got []string
	var err error
	switch fn {
	case 0:
		got, err = ChangeExtendedSpatialIdsZoom([]string{vGood5}, hz, vz)
	case 1:
		got, err = MergeExtendedSpatialIds([]string{vGood5}, hz, vz)
	case 2:
		vAssume(hz == vz)
		got, err = ChangeSpatialIdsZoom([]string{vGood4}, hz)
	default:
		vAssume(hz == vz)
		got, err = MergeSpatialIds([]string{vGood4}, hz)
	}
	vAssert(err != nil, "a zoom outside 0..35 is an error")
	vAssert(len(got) == 0, "and the result is the empty list")
	vReach("end")
}
