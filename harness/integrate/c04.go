package integrate

import "github.com/trajectoryjp/spatial_id_go/v4/common/object"

// C04 — merging never changes the covered region, merges all it can, and is idempotent.

type vVox struct{ h, x, y, v, f int64 }

func (a vVox) id() string { return vID5(a.h, a.x, a.y, a.v, a.f) }

// contains: voxel a contains (is an ancestor-or-equal of) voxel b on both axes.
func vContains(a, b vVox) bool {
	if a.h > b.h || a.v > b.v {
		return false
	}
	return b.x>>uint(b.h-a.h) == a.x && b.y>>uint(b.h-a.h) == a.y && b.f>>uint(b.v-a.v) == a.f
}

func vParseAll(ids []string) ([]vVox, bool) {
	out := make([]vVox, 0, len(ids))
	ok := true
	for i := 0; i < len(ids); i++ {
		o, err := object.NewExtendedSpatialID(ids[i])
		if err != nil {
			ok = false
		} else {
			out = append(out, vVox{o.HZoom(), o.X(), o.Y(), o.VZoom(), o.Z()})
		}
	}
	return out, ok
}

func vNondetVox(tag string, i, h, v int64) vVox {
	a := vVox{h, vNondetInt64(vN(tag+"x", i)), vNondetInt64(vN(tag+"y", i)), v, vNondetInt64(vN(tag+"f", i))}
	vAssume(0 <= a.x && a.x < int64(1)<<uint(h) && 0 <= a.y && a.y < int64(1)<<uint(h))
	vAssume(-(int64(1)<<uint(v)) <= a.f && a.f < int64(1)<<uint(v))
	return a
}

// vCheckMerge: the oracle shared by the shapes.  in = inputs, H,V = target zooms, mh,mv = finest zooms among inputs.
func vCheckMerge(in []vVox, got []string, H, V, mh, mv int64) {
	out, ok := vParseAll(got)
	vAssert(ok, "outputs are well-formed extended IDs")
	// 1. region equality through a symbolic unit cell
	p := vNondetVox("p", 0, mh, mv)
	cin, cout := false, false
	for i := 0; i < len(in); i++ {
		if vContains(in[i], p) {
			cin = true
		}
	}
	for i := 0; i < len(out); i++ {
		if vContains(out[i], p) {
			cout = true
		}
	}
	vAssert(cin == cout, "a unit cell is covered by the output iff it is covered by the input (region unchanged)")
	// 2. no duplicates
	dup := false
	for i := 0; i < len(got); i++ {
		for j := i + 1; j < len(got); j++ {
			if got[i] == got[j] {
				dup = true
			}
		}
	}
	vAssert(!dup, "the output has no duplicates")
	// 3. a symbolic target-zoom voxel T: if every unit cell of T is covered by eligible inputs, T is
	//    returned and none of its eligible contributors is; otherwise T's contributors are returned unchanged
	T := vNondetVox("T", 0, H, V)
	dh, dv := uint(mh-H), uint(mv-V)
	full := true
	for a := int64(0); a < int64(1)<<dh; a++ {
		for b := int64(0); b < int64(1)<<dh; b++ {
			for c := int64(0); c < int64(1)<<dv; c++ {
				cell := vVox{mh, T.x<<dh + a, T.y<<dh + b, mv, T.f<<dv + c}
				cov := false
				for i := 0; i < len(in); i++ {
					if in[i].h >= H && in[i].v >= V && vContains(in[i], cell) {
						cov = true
					}
				}
				if !cov {
					full = false
				}
			}
		}
	}
	tid := T.id()
	hasT := false
	for i := 0; i < len(got); i++ {
		if got[i] == tid {
			hasT = true
		}
	}
	contribLeft, contribMissing, tIsInput := false, false, false
	for i := 0; i < len(in); i++ {
		if in[i].h >= H && in[i].v >= V && vContains(T, in[i]) {
			isT := in[i].h == H && in[i].v == V
			if isT {
				tIsInput = true
			}
			present := false
			s := in[i].id()
			for j := 0; j < len(got); j++ {
				if got[j] == s {
					present = true
				}
			}
			if present && !isT {
				contribLeft = true
			}
			if !present {
				contribMissing = true
			}
		}
	}
	if full {
		vAssert(hasT, "a completely filled target voxel is returned as that one voxel")
		vAssert(!contribLeft, "and its finer contributors are not returned")
	} else {
		vAssert(!contribMissing, "inputs inside an incompletely filled target voxel are returned unchanged")
		vAssert(hasT == tIsInput, "an incompletely filled target voxel is not invented")
	}
	// 4. ineligible inputs (coarser on an axis) are returned unchanged
	lost := false
	for i := 0; i < len(in); i++ {
		if in[i].h < H || in[i].v < V {
			s := in[i].id()
			present := false
			for j := 0; j < len(got); j++ {
				if got[j] == s {
					present = true
				}
			}
			if !present {
				lost = true
			}
		}
	}
	vAssert(!lost, "inputs coarser than the target on either axis are returned unchanged")
}

// VerifC04Free: k <= 3 arbitrary IDs, each at the target zoom or one level finer per axis.
// Cases: k, H, V, and for each ID dh<i>, dv<i> in {-1,0,1} (-1: coarser, ineligible).
func VerifC04Free() {
	k := vCase("k")
	H := vCase("H")
	V := vCase("V")
	in := make([]vVox, 0, 3)
	ids := make([]string, 0, 4)
	mh, mv := H, V
	for i := int64(0); i < k; i++ {
		h := H + vCase(vN("dh", i))
		v := V + vCase(vN("dv", i))
		if h > mh {
			mh = h
		}
		if v > mv {
			mv = v
		}
		a := vNondetVox("i", i, h, v)
		in = append(in, a)
		ids = append(ids, a.id())
	}
	vFrameBegin("MergeExtendedSpatialIds")
	got, err := MergeExtendedSpatialIds(ids, H, V)
	vFrameEnd()
	vAssert(err == nil, "valid IDs and zooms are accepted")
	vCheckMerge(in, got, H, V, mh, mv)
	if vCase("idem") == 1 {
		again, err2 := MergeExtendedSpatialIds(got, H, V)
		vAssert(err2 == nil, "the output is accepted as input")
		same := len(again) == len(got)
		for i := 0; i < len(again); i++ {
			f := false
			for j := 0; j < len(got); j++ {
				if again[i] == got[j] {
					f = true
				}
			}
			if !f {
				same = false
			}
		}
		vAssert(same, "merging the result again changes nothing")
	}
	vReach("end")
}

// VerifC04Children: the complete child set (dh, dv levels finer) of a symbolic target voxel,
// with one child optionally dropped (drop >= 0), duplicated (dupc >= 0), plus `extra` arbitrary IDs.
func VerifC04Children() {
	H := vCase("H")
	V := vCase("V")
	dh := uint(vCase("dh"))
	dv := uint(vCase("dv"))
	drop := vCase("drop")
	dupc := vCase("dupc")
	extra := vCase("extra")
	T := vNondetVox("t", 0, H, V)
	mh, mv := H+int64(dh), V+int64(dv)
	in := make([]vVox, 0, 10)
	ids := make([]string, 0, 10)
	n := int64(0)
	for a := int64(0); a < int64(1)<<dh; a++ {
		for b := int64(0); b < int64(1)<<dh; b++ {
			for c := int64(0); c < int64(1)<<dv; c++ {
				ch := vVox{mh, T.x<<dh + a, T.y<<dh + b, mv, T.f<<dv + c}
				if n != drop {
					in = append(in, ch)
					ids = append(ids, ch.id())
				}
				if n == dupc {
					in = append(in, ch)
					ids = append(ids, ch.id())
				}
				n++
			}
		}
	}
	for i := int64(0); i < extra; i++ {
		a := vNondetVox("e", i, mh, mv)
		in = append(in, a)
		ids = append(ids, a.id())
	}
	got, err := MergeExtendedSpatialIds(ids, H, V)
	vAssert(err == nil, "valid IDs and zooms are accepted")
	vCheckMerge(in, got, H, V, mh, mv)
	if drop < 0 && extra == 0 {
		vAssert(len(got) == 1 && got[0] == T.id(), "the complete set of descendants merges into exactly the parent")
	}
	vReach("end")
}

// VerifC04Mixed: a target voxel filled by members of DIFFERENT depths — its lower half as one child (one level
// finer vertically) and its upper half as two grandchildren (two levels finer) — in every list order (case ord 0..5);
// with drop >= 0 one of the three is left out.  Complete: exactly the parent; incomplete: returned unchanged.
func VerifC04Mixed() {
	H := vCase("H")
	V := vCase("V")
	ord := vCase("ord")
	drop := vCase("drop")
	T := vNondetVox("t", 0, H, V)
	m := []vVox{
		{H, T.x, T.y, V + 1, T.f << 1},
		{H, T.x, T.y, V + 2, T.f<<2 + 2},
		{H, T.x, T.y, V + 2, T.f<<2 + 3},
	}
	perm := [][]int{{0, 1, 2}, {0, 2, 1}, {1, 0, 2}, {1, 2, 0}, {2, 0, 1}, {2, 1, 0}}[ord]
	in := make([]vVox, 0, 3)
	ids := make([]string, 0, 3)
	for _, k := range perm {
		if int64(k) == drop {
			continue
		}
		in = append(in, m[k])
		ids = append(ids, m[k].id())
	}
	got, err := MergeExtendedSpatialIds(ids, H, V)
	vAssert(err == nil, "valid IDs and zooms are accepted")
	vCheckMerge(in, got, H, V, H, V+2)
	if drop < 0 {
		vAssert(len(got) == 1 && got[0] == T.id(), "members of different depths that fill the voxel merge into exactly the parent, in every order")
	}
	vReach("end")
}

// VerifC04Spatial: the z/f/x/y API on the complete child set.
func VerifC04Spatial() {
	Z := vCase("Z")
	T := vNondetVox("t", 0, Z, Z)
	ids := make([]string, 0, 8)
	for a := int64(0); a < 2; a++ {
		for b := int64(0); b < 2; b++ {
			for c := int64(0); c < 2; c++ {
				ids = append(ids, vID4(Z+1, T.f<<1+c, T.x<<1+a, T.y<<1+b))
			}
		}
	}
	got, err := MergeSpatialIds(ids, Z)
	vAssert(err == nil, "valid IDs and zoom are accepted")
	vAssert(len(got) == 1 && got[0] == vID4(Z, T.f, T.x, T.y), "the eight children merge into the parent (z/f/x/y)")
	vReach("end")
}
