package object

// C10 (object part) — parsing an extended ID into an object and printing it returns the
// same five numbers in the same positions.

func VerifC10Object() {
	h := vNondetInt64("h")
	x := vNondetInt64("x")
	y := vNondetInt64("y")
	v := vNondetInt64("v")
	f := vNondetInt64("f")
	id := vID5(h, x, y, v, f)
	o, err := NewExtendedSpatialID(id)
	vAssert(err == nil, "five decimal fields are accepted")
	vAssert(o.HZoom() == h && o.X() == x && o.Y() == y && o.VZoom() == v && o.Z() == f, "fields are parsed into their positions")
	vAssert(o.ID() == id, "printing the object returns the same ID")
	p := o.FieldParams()
	vAssert(len(p) == 5 && p[0] == h && p[1] == x && p[2] == y && p[3] == v && p[4] == f, "FieldParams lists hZoom,x,y,vZoom,z")
	var o2 ExtendedSpatialID
	vAssert(o2.ResetExtendedSpatialID(id) == nil && o2.ID() == id, "Reset + ID round trip")
	vReach("end")
}
