package object

import "strconv"

// C10 (object part) — parsing an extended ID into an object and printing it returns the
// same five numbers in the same positions.

func VerifC10Object() {
	h := vNondetInt64("h")
	x := vNondetInt64("x")
	y := vNondetInt64("y")
	v := vNondetInt64("v")
	f := vNondetInt64("f")
	id := vID5(h, x, y, v, f)
	o, err := NewExtendedSpatialID(id)
	vAssert(err == nil, "five decimal fields are accepted")
	vAssert(o.HZoom() == h && o.X() == x && o.Y() == y && o.VZoom() == v && o.Z() == f, "fields are parsed into their positions")
	vAssert(o.ID() == id, "printing the object returns the same ID")
	p := o.FieldParams()
	vAssert(len(p) == 5 && p[0] == h && p[1] == x && p[2] == y && p[3] == v && p[4] == f, "FieldParams lists hZoom,x,y,vZoom,z")
	var o2 ExtendedSpatialID
	vAssert(o2.ResetExtendedSpatialID(id) == nil && o2.ID() == id, "Reset + ID round trip")
	vReach("end")
}

// VerifC10ObjectText: an arbitrary 5-field text.  When the parser accepts it, every field is a decimal
// integer and the object holds exactly those numbers in their positions (the notation is decimal: a text
// such as "0x12" is not a number of it, and "010" is ten).
func VerifC10ObjectText() {
	s := vNondetStringN("s", 5)
	fs := vSplit(s)
	vAssume(len(fs) == 5)
	o, err := NewExtendedSpatialID(s)
	if err == nil {
		p := o.FieldParams()
		ok := len(p) == 5
		for i := 0; i < 5 && ok; i++ {
			v, e := strconv.ParseInt(fs[i], 10, 64)
			if e != nil || p[i] != v {
				ok = false
			}
		}
		vAssert(ok, "an accepted text has five decimal fields and the object holds their values")
	}
	vReach("end")
}
