package object

// C15 (object) — NewPoint / SetLon / SetLat / SetAlt: domain checks and what is stored.

// VerifC15Lon: exact IEEE comparisons.  lon any non-NaN double.
func VerifC15Lon() {
	lon := vNondetFloat64("lon")
	alt := vNondetFloat64("alt")
	vAssume(lon == lon && alt == alt)
	p, err := NewPoint(lon, 0, alt)
	if lon > 180 || lon < -180 {
		vAssert(err != nil, "a longitude beyond +-180 is an error")
	} else {
		vAssert(err == nil, "a longitude within +-180 is accepted")
		vAssert(p.Lon() == lon && p.Alt() == alt, "longitude and altitude are stored unchanged")
	}
	var q Point
	e2 := q.SetLon(lon)
	vAssert((e2 != nil) == (lon > 180 || lon < -180), "SetLon applies the same check")
	vReach("end")
}

// VerifC15Lat: banded claims in the relaxed encoding.  lat any real in [-1000, 1000].
func VerifC15Lat() {
	lat := vNondetFloat64("lat")
	vAssume(-1000.0 <= lat && lat <= 1000.0)
	p, err := NewPoint(0, lat, 0)
	a := lat
	if a < 0 {
		a = -a
	}
	if vRLe(vRDiv(vRI(850511287800), vRI(10000000000)), vR(a)) {
		vAssert(err != nil, "|lat| >= 85.0511287800 is an error")
	}
	if vRLe(vR(a), vRDiv(vRI(850511287797), vRI(10000000000))) {
		vAssert(err == nil, "|lat| <= 85.0511287797 is accepted")
	}
	if err == nil {
		s := p.Lat()
		if s < 0 {
			s = -s
		}
		d := vRSub(vR(a), vR(s))
		tol := vRDiv(vRI(1), vRI(10000000000))
		slack := vRDiv(vRI(1), vRI(1000000000000)) // 1e-12: rounding of the two operations (a few ulp of 85)
		vAssert(vRLt(vRSub(vRI(0), slack), d) && vRLt(d, vRAdd(tol, slack)), "the stored latitude is the input cut toward zero by less than 1e-10 (up to rounding)")
		vAssert((lat >= 0) == (p.Lat() >= 0) || p.Lat() == 0, "the sign is kept")
	}
	vReach("end")
}

// VerifC15LatExact: the strict form "stored magnitude <= input magnitude" in exact IEEE arithmetic
// is a known finding (one ulp above for inputs one ulp below a multiple of 1e-10); this harness
// carries the pinned witness and is not run symbolically.
func VerifC15LatExact() {
	lat := vNondetFloat64("lat")
	p, err := NewPoint(0, lat, 0)
	if err == nil && lat >= 0 {
		vAssert(vKnown("KF-C15-lat-ulp", true) || p.Lat() <= lat, "stored latitude is not above the input")
	}
	vReach("end")
}
