package common

// C20 — the exported helper algebra obeys its mathematical laws (integer / structural part).

func vIn(l []int64, p int64) bool {
	found := false
	for i := 0; i < len(l); i++ {
		if l[i] == p {
			found = true
		}
	}
	return found
}

func vDistinct(l []int64) bool {
	ok := true
	for i := 0; i < len(l); i++ {
		for j := i + 1; j < len(l); j++ {
			if l[i] == l[j] {
				ok = false
			}
		}
	}
	return ok
}

func vList(name string, n int64) []int64 {
	l := make([]int64, 0, n+2) // spare capacity: an in-place append by the callee would show up in the frame check
	for i := int64(0); i < n; i++ {
		l = append(l, vNondetInt64(vN(name, i)))
	}
	return l
}

// VerifC20Sets: cases n1, n2 (lengths); symbolic elements and a symbolic probe value.
func VerifC20Sets() {
	a := vList("a", vCase("n1"))
	b := vList("b", vCase("n2"))
	p := vNondetInt64("p")
	vFrameBegin("set helpers")
	u := Union(a, b)
	is := Intersect(a, b)
	d := Difference(a, b)
	q := Unique(a)
	inc := Include(a, p)
	vFrameEnd()
	ina, inb := vIn(a, p), vIn(b, p)
	vAssert(vIn(u, p) == (ina || inb), "p in Union(a,b) iff p in a or p in b")
	vAssert(vIn(is, p) == (ina && inb), "p in Intersect(a,b) iff p in a and p in b")
	vAssert(vIn(d, p) == (ina && !inb), "p in Difference(a,b) iff p in a and not in b")
	vAssert(vIn(q, p) == ina, "p in Unique(a) iff p in a")
	vAssert(inc == ina, "Include(a,p) iff p in a")
	vAssert(vDistinct(u), "Union has no duplicates")
	vAssert(vDistinct(q), "Unique has no duplicates")
	vReach("end")
}

// VerifC20MaxMin: case n; int64 elements.
func VerifC20MaxMin() {
	n := vCase("n")
	a := vList("a", n)
	mx, e1 := Max(a)
	mn, e2 := Min(a)
	if n == 0 {
		vAssert(e1 != nil && e2 != nil, "empty input is rejected")
		vReach("end")
		return
	}
	vAssert(e1 == nil && e2 == nil, "non-empty input is accepted")
	vAssert(vIn(a, mx) && vIn(a, mn), "max and min are elements")
	ok := true
	for i := 0; i < len(a); i++ {
		if a[i] > mx || a[i] < mn {
			ok = false
		}
	}
	vAssert(ok, "max bounds all elements from above, min from below")
	vReach("end")
}

// VerifC20MaxMinFloat: float64 elements without NaN.
func VerifC20MaxMinFloat() {
	n := vCase("n")
	a := make([]float64, 0, n)
	for i := int64(0); i < n; i++ {
		f := vNondetFloat64(vN("a", i))
		vAssume(f == f)
		a = append(a, f)
	}
	mx, e1 := Max(a)
	mn, e2 := Min(a)
	if n == 0 {
		vAssert(e1 != nil && e2 != nil, "empty input is rejected")
		vReach("end")
		return
	}
	vAssert(e1 == nil && e2 == nil, "non-empty input is accepted")
	isEl, ok := false, true
	isElMin := false
	for i := 0; i < len(a); i++ {
		if a[i] == mx {
			isEl = true
		}
		if a[i] == mn {
			isElMin = true
		}
		if a[i] > mx || a[i] < mn {
			ok = false
		}
	}
	vAssert(isEl && isElMin, "max and min are elements")
	vAssert(ok, "max bounds all elements from above, min from below")
	vReach("end")
}

// VerifC20Shift: CalculateArithmeticShift(i, s) == floor(i * 2^s) whenever that fits; case s.
func VerifC20Shift() {
	s := vCase("s")
	i := vNondetInt64("i")
	got := CalculateArithmeticShift(i, s)
	var want vWide
	if s >= 0 {
		want = vWShl(vW(i), s)
	} else {
		want = vWShr(vW(i), -s)
	}
	if vWFits64(want) {
		vAssert(vWEq(vW(got), want), "arithmetic shift equals floor(i * 2^s) when the result fits in int64")
	}
	vReach("end")
}

// VerifC20Combinations: cases n, k.  No symbolic input: the enumerator is run on the real code
// and every visit is checked.
func VerifC20Combinations() {
	n := vCase("n")
	k := vCase("k")
	var seen [][]int64
	Combinations(n, k, func(p []int64) {
		c := make([]int64, len(p))
		copy(c, p)
		seen = append(seen, c)
	})
	// binomial coefficient
	want := int64(1)
	for i := int64(1); i <= k; i++ {
		want = want * (n - k + i) / i
	}
	vAssert(int64(len(seen)) == want, "C(n,k) subsets are visited")
	ok := true
	for i := 0; i < len(seen); i++ {
		t := seen[i]
		if int64(len(t)) != k {
			ok = false
		}
		for j := 0; j < len(t); j++ {
			if t[j] < 0 || t[j] >= n || (j > 0 && t[j] <= t[j-1]) {
				ok = false
			}
		}
		if i > 0 { // strictly lexicographically increasing
			less := false
			prev := seen[i-1]
			for j := 0; j < len(t) && j < len(prev); j++ {
				if prev[j] != t[j] {
					less = prev[j] < t[j]
					break
				}
			}
			if !less {
				ok = false
			}
		}
	}
	vAssert(ok, "each visit is a strictly increasing k-tuple in [0,n) and visits are in strict lexicographic order")
	vReach("end")
}
