package spatial

import (
	"strconv"
	"strings"
)

func vSplit(s string) []string { return strings.Split(s, "/") }

func vID5(h, x, y, v, f int64) string {
	return strconv.FormatInt(h, 10) + "/" + strconv.FormatInt(x, 10) + "/" + strconv.FormatInt(y, 10) + "/" + strconv.FormatInt(v, 10) + "/" + strconv.FormatInt(f, 10)
}

func vID4(z, f, x, y int64) string {
	return strconv.FormatInt(z, 10) + "/" + strconv.FormatInt(f, 10) + "/" + strconv.FormatInt(x, 10) + "/" + strconv.FormatInt(y, 10)
}

func vID3(h, x, y int64) string {
	return strconv.FormatInt(h, 10) + "/" + strconv.FormatInt(x, 10) + "/" + strconv.FormatInt(y, 10)
}

func vID2(v, f int64) string {
	return strconv.FormatInt(v, 10) + "/" + strconv.FormatInt(f, 10)
}

// vInter1: the dyadic cells a (zoom za) and b (zoom zb) of one axis intersect, i.e. one is an
// ancestor-or-equal of the other; >> on int64 is the floor semantics the grid uses below ground.
func vInter1(za, a, zb, b int64) bool {
	if za <= zb {
		return b>>uint(zb-za) == a
	}
	return a>>uint(za-zb) == b
}

func vN(s string, i int64) string { return s + strconv.FormatInt(i, 10) }

// vWF: s has exactly k '/'-separated fields and every field is a base-10 int64.
func vWF(s string, k int) bool {
	p := vSplit(s)
	if len(p) != k {
		return false
	}
	ok := true
	for i := 0; i < len(p); i++ {
		if _, err := strconv.ParseInt(p[i], 10, 64); err != nil {
			ok = false
		}
	}
	return ok
}

// vArity: the number of '/'-separated fields.
func vArity(s string) int { return len(vSplit(s)) }

// vZoomSane: the field at position i, when it is an integer, is a zoom in 0..35 (the property
// excludes IDs whose zoom fields are outside that range: unbounded work is documented there).
func vZoomSane(s string, i int) bool {
	p := vSplit(s)
	if i >= len(p) {
		return true
	}
	v, err := strconv.ParseInt(p[i], 10, 64)
	if err != nil {
		return true
	}
	return 0 <= v && v <= 35
}

// vZoomMax: like vZoomSane with a smaller upper bound.
func vZoomMax(s string, i int, mx int64) bool {
	p := vSplit(s)
	if i >= len(p) {
		return true
	}
	v, err := strconv.ParseInt(p[i], 10, 64)
	if err != nil {
		return true
	}
	return 0 <= v && v <= mx
}

// vIdxSane: every field that is an integer has magnitude <= 2^36 (malformed IDs with larger
// numeric fields are outside the claim: the library's loops are linear in index arithmetic
// that would wrap around int64).
func vIdxSane(s string) bool {
	p := vSplit(s)
	ok := true
	for i := 0; i < len(p); i++ {
		v, err := strconv.ParseInt(p[i], 10, 64)
		if err == nil && (v < -(int64(1)<<36) || v > int64(1)<<36) {
			ok = false
		}
	}
	return ok
}

// vIdxMax: every field that is an integer has magnitude <= lim.
func vIdxMax(s string, lim int64) bool {
	p := vSplit(s)
	ok := true
	for i := 0; i < len(p); i++ {
		v, err := strconv.ParseInt(p[i], 10, 64)
		if err == nil && (v < -lim || v > lim) {
			ok = false
		}
	}
	return ok
}
