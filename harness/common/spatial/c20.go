package spatial

import "math"

// C20 (linear vector laws) — Add/Sub/Scale/Dot/Cross equal their component formulas and a line's
// parameter 0 / 1 gives its end points.  Exact IEEE-754 arithmetic (cvc5): the claims are
// bit-level equalities of the very same rounded operations, plus a tolerance for ToPoint(1).

func vVec(tag string) Vector3 {
	v := Vector3{X: vNondetFloat64(tag + "x"), Y: vNondetFloat64(tag + "y"), Z: vNondetFloat64(tag + "z")}
	lim := 1.0e6
	vAssume(-lim <= v.X && v.X <= lim && -lim <= v.Y && v.Y <= lim && -lim <= v.Z && v.Z <= lim)
	return v
}

func VerifC20VecLinear() {
	a := vVec("a")
	b := vVec("b")
	s := vNondetFloat64("s")
	vAssume(-1.0e6 <= s && s <= 1.0e6)
	ad := a.Add(b)
	vAssert(ad.X == a.X+b.X && ad.Y == a.Y+b.Y && ad.Z == a.Z+b.Z, "Add is component-wise")
	sb := a.Sub(b)
	vAssert(sb.X == a.X-b.X && sb.Y == a.Y-b.Y && sb.Z == a.Z-b.Z, "Sub is component-wise")
	sc := a.Scale(s)
	vAssert(sc.X == s*a.X && sc.Y == s*a.Y && sc.Z == s*a.Z, "Scale multiplies every component")
	nv := NewVectorFromPoints(Point3(a), Point3(b))
	vAssert(nv.X == b.X-a.X && nv.Y == b.Y-a.Y && nv.Z == b.Z-a.Z, "the vector from p to q is q - p")
	vReach("end")
}

func VerifC20VecProducts() {
	a := vVec("a")
	b := vVec("b")
	d := a.Dot(b)
	vAssert(d == a.X*b.X+a.Y*b.Y+a.Z*b.Z, "Dot is the sum of the component products (left to right)")
	c := a.Cross(b)
	vAssert(c.X == a.Y*b.Z-a.Z*b.Y && c.Y == a.Z*b.X-a.X*b.Z && c.Z == a.X*b.Y-a.Y*b.X, "Cross is the determinant formula")
	l1 := a.L1Norm()
	vAssert(l1 == math.Abs(a.X)+math.Abs(a.Y)+math.Abs(a.Z), "L1Norm is the sum of the absolute components")
	vReach("end")
}

func VerifC20Line() {
	p := vVec("p")
	q := vVec("q")
	l := NewLineFromPoints(Point3(p), Point3(q))
	s := l.Start()
	vAssert(s.X == p.X && s.Y == p.Y && s.Z == p.Z, "Start is the first point")
	z := l.ToPoint(0)
	vAssert(z.X == p.X && z.Y == p.Y && z.Z == p.Z, "parameter 0 gives the start point exactly")
	e := l.ToPoint(1)
	en := l.End()
	vAssert(e.X == en.X && e.Y == en.Y && e.Z == en.Z, "parameter 1 and End agree exactly")
	dx := e.X - q.X
	if dx < 0 {
		dx = -dx
	}
	vAssert(dx <= 1.0e-9, "parameter 1 gives the end point (x, within 1e-9 for coordinates up to 1e6)")
	vReach("end")
}
