#!/bin/bash
# development helper: confirm a seeded change (patch + demo) in a scratch worktree, then run checks against it in /repo.
# usage: tools_mutants.sh <srcdir> <k> "<props to check>"
export GOFLAGS=-mod=mod GOPROXY=off GOSUMDB=off GOTOOLCHAIN=local
src=$1; k=$2; props=$3
patch=$src/_out/patch$k.diff; demo=$src/_out/demo$k_test.go
demo=$src/_out/demo${k}_test.go
dir=$(head -1 $demo | sed -E "s/.*dir: *([a-zA-Z\/]+).*/\1/")
wt=/tmp/mv_$$
git -C /repo worktree add -q $wt HEAD || exit 2
cd $wt
res=""
git apply $patch || { echo "APPLY-FAIL"; git -C /repo worktree remove --force $wt; exit 2; }
go build ./... >/dev/null 2>&1 && res="$res build=ok" || res="$res build=FAIL"
go test -vet=off -count=1 ./... >/tmp/mv_suite.txt 2>&1 && res="$res suite=pass" || res="$res suite=FAIL"
cp $demo $dir/zz_demo_test.go
race=""; grep -qi "race" $demo && race="-race"
(cd $dir && timeout 600 go test -vet=off -count=1 $race -run 'Demo' . >/tmp/mv_demo1.txt 2>&1) && res="$res demo_with_change=PASS(unexpected)" || res="$res demo_with_change=fail(expected)"
git checkout -q -- . 
(cd $dir && timeout 600 go test -vet=off -count=1 $race -run 'Demo' . >/tmp/mv_demo2.txt 2>&1) && res="$res demo_clean=pass(expected)" || res="$res demo_clean=FAIL(unexpected)"
cd /; git -C /repo worktree remove --force $wt
echo "CONFIRM $src k=$k dir=$dir:$res"
# run checks against the change applied to /repo
git -C /repo apply $patch || { echo "APPLY-REPO-FAIL"; exit 2; }
cd /verif
for p in $props; do
  s=$(date +%s)
  out=$(timeout 1500 ./bin/symgo check $p -no-evidence 2>&1); rc=$?
  e=$(date +%s)
  echo "CHECK $p rc=$rc $((e-s))s"
  echo "$out" | grep -E "^VIOLATION|^  harness=|INCONCLUSIVE" | cut -c1-330 | head -5
done
git -C /repo checkout -- .
git -C /repo status --short | grep -v '^??' | head -3
