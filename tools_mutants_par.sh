#!/bin/bash
# development helper: like tools_mutants.sh, but everything (confirmation AND the checks) runs in a private scratch
# worktree via SYMGO_REPO, so that several seeded changes can be screened at once.  /repo is not touched.
# usage: tools_mutants_par.sh <srcdir> <k> "<props>"   (output on stdout)
export GOFLAGS=-mod=mod GOPROXY=off GOSUMDB=off GOTOOLCHAIN=local
src=$1; k=$2; props=$3
patch=$src/_out/patch$k.diff
demo=$src/_out/demo${k}_test.go
dir=$(head -1 $demo | sed -E "s/.*dir: *([a-zA-Z\/]+).*/\1/")
wt=/tmp/mvp_$(basename $src)_$k
git -C /repo worktree add -q $wt HEAD || exit 2
cd $wt
res=""
git apply $patch || { echo "APPLY-FAIL"; git -C /repo worktree remove --force $wt; exit 2; }
go build ./... >/dev/null 2>&1 && res="$res build=ok" || res="$res build=FAIL"
go test -vet=off -count=1 ./... >$wt.suite.txt 2>&1 && res="$res suite=pass" || res="$res suite=FAIL"
cp $demo $dir/zz_demo_test.go
race=""; grep -qi "race" $demo && race="-race"
(cd $dir && timeout 600 go test -vet=off -count=1 $race -run 'Demo' . >$wt.demo1.txt 2>&1) && res="$res demo_with_change=PASS(unexpected)" || res="$res demo_with_change=fail(expected)"
git checkout -q -- .
(cd $dir && timeout 600 go test -vet=off -count=1 $race -run 'Demo' . >$wt.demo2.txt 2>&1) && res="$res demo_clean=pass(expected)" || res="$res demo_clean=FAIL(unexpected)"
rm -f $dir/zz_demo_test.go
echo "CONFIRM $src k=$k dir=$dir:$res"
git apply $patch
cd /verif
for p in $props; do
  s=$(date +%s)
  out=$(SYMGO_REPO=$wt timeout 2400 ./bin/symgo check $p -no-evidence 2>&1); rc=$?
  e=$(date +%s)
  echo "CHECK $p rc=$rc $((e-s))s"
  echo "$out" | grep -E "^VIOLATION|^  harness=|INCONCLUSIVE" | cut -c1-330 | head -6
done
cd /; git -C /repo worktree remove --force $wt; rm -f $wt.suite.txt $wt.demo1.txt $wt.demo2.txt
